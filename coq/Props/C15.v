(* C15 — a failed load leaves nothing behind (for the references textX itself stores; the
   run-time reachability is observed by the check, see design/C15.md). *)
From TxV Require Import Core.Base Gen.SrcUserCls Model.UserCls Proofs.UserClsProofs Proofs.UserClsLogProofs Proofs.UserClsSrcProofs.
From TxV Require Model.RepoDefs Gen.SrcRepo Model.Repo Proofs.RepoProofs Proofs.UserClsRepoProofs.

(* FULL STATEMENT (not provable in this model: frames, tracebacks and exception chaining are not
   represented): after a failing load no object allocated by it is reachable from textX, its
   classes or the metamodel.

   Proved, partial: the repositories on the repository model of C17/C18 (C15_repositories_restored
   below); and in every history of the user-class load machine, when the running load raises, none of
   the user objects it has allocated keeps an entry in `_tx_obj_attrs` (the only place where a
   user class refers to objects), none of its models stays in a model repository, and the load
   is no longer running (its parsers are not counted any more, see C15_classes_uninstrumented). *)
Theorem C15_unreachable_partial : forall d0 ops c rest,
  s_ctxs (run replace_names restore_names (init d0) ops) = c :: rest ->
  let s' := step replace_names restore_names (run replace_names restore_names (init d0) ops) Fail in
  (forall x, In x (c_objs c) -> ~ In x (k_store (s_cls s'))) /\
  (forall m, In m (c_mids c) -> ~ In m (s_repo s')) /\
  s_ctxs s' = rest.
Proof. exact src_failed_load_leaves_nothing. Qed.
Print Assumptions C15_unreachable_partial.

(* User classes are left uninstrumented: once no load runs (in particular after a failed
   top-level load, however it failed and whatever ran inside it), the class is as before. *)
Theorem C15_classes_uninstrumented : forall d0 ops,
  s_ctxs (run replace_names restore_names (init d0) ops) = [] ->
  cls_same d0 (s_cls (run replace_names restore_names (init d0) ops)).
Proof. exact src_restored. Qed.
Print Assumptions C15_classes_uninstrumented.

(* PARTIAL (C15_next_load_fresh): as far as the user classes are concerned a load after a failed
   one starts from the state of a fresh metamodel, and whatever follows ends in that state again.
   The equality of the resulting models is observed by the check (next_check), the history
   independence of the rest of the metamodel is C16. *)
Theorem C15_next_load_fresh_partial : forall d0 ops,
  s_ctxs (run replace_names restore_names (init d0) ops) = [] ->
  cls_same d0 (s_cls (run replace_names restore_names (init d0) ops)) /\
  forall ops2, s_ctxs (run replace_names restore_names (init d0) (ops ++ ops2)) = [] ->
               cls_same d0 (s_cls (run replace_names restore_names (init d0) (ops ++ ops2))).
Proof. exact src_idle_is_initial. Qed.
Print Assumptions C15_next_load_fresh_partial.

(* THE MODEL REPOSITORIES, on the repository model of C17/C18 (Model/Repo.v: import providers and
   GlobalRepo providers with registered patterns, with or without a metamodel-global repository,
   main model from a file or from a string; failure phases: missing file, syntax error, nothing found
   for an import, unresolved reference, object processor, model processor of an imported or of the
   main model; its cleanup handlers are read from the source by repo_tr.py, Gen/SrcRepo.v).
   At every point of every history of loads, string loads and file rewrites: if the next load fails,
   the heap of model objects, all_models, every model's local_models, the set of models under
   construction and the resolved reference targets are exactly what they were when the load began,
   and every model still registered existed before the load.  (Proved by the C17/C18 builder;
   composed here so that the repository half of C15 does not rest on the `s_repo` abstraction of the
   user-class machine alone.) *)
Theorem C15_repositories_restored : forall c builtins fs0 ops s',
  let s := Repo.run_hist c fs0 (Repo.init_state builtins) ops in
  (exists fs f e, Repo.load_main fs c f s = (inl e, s')) \/ (exists fs fc e, Repo.load_str fs c fc s = (inl e, s')) ->
  Repo.heap s' = Repo.heap s /\ Repo.allm s' = Repo.allm (Repo.begin_op c s) /\ Repo.locals s' = Repo.locals s /\
  Repo.constr s' = Repo.constr s /\ Repo.targets s' = Repo.targets s /\
  (forall k v, In (k, v) (Repo.allm s') -> v < length (Repo.heap s)).
Proof. exact UserClsRepoProofs.failed_load_repositories_restored. Qed.
Print Assumptions C15_repositories_restored.

(* non-vacuity: global repository, a GlobalRepo pattern reaching files 0 and 1, an earlier string
   model; a string main with an unresolved reference fails: everything is as before *)
Example C15_repositories_nonvacuous :
  let fs := [Repo.mkFile [[0; 1]] [100%N] [] false false false; Repo.mkFile [[0; 1]] [101%N] [] false false false] in
  let c := Repo.init_cfg true false [] in
  let s := Repo.run_hist c fs (Repo.init_state []) [Repo.OLoadStr (Repo.mkFile [[0; 1]] [103%N] [100%N] false false false)] in
  let bad := Repo.mkFile [[0; 1]] [104%N] [104%N; 999%N] false false false in
  Repo.allm s = [(2, 0); (0, 1); (1, 2)] /\
  (exists e, fst (Repo.load_str fs c bad s) = inl e) /\
  Repo.allm (snd (Repo.load_str fs c bad s)) = [(2, 0); (0, 1); (1, 2)] /\
  length (Repo.heap (snd (Repo.load_str fs c bad s))) = 3.
Proof. vm_compute. repeat split; try reflexivity. eexists. reflexivity. Qed.
Print Assumptions C15_repositories_nonvacuous.

(* non-vacuity: a load with an imported model in a metamodel-global repository fails after the
   first __init__; before the failure 3 objects are stored and 2 models registered *)
Example C15_nonvacuous :
  let ops := [Begin true true true; Alloc; Alloc; Complete; Complete; Begin false true true; Alloc; Complete;
              ResolveOk; EndModel; Init true] in
  let s := run replace_names restore_names (init (fun _ => Absent)) ops in
  exists c, s_ctxs s = [c] /\ c_objs c = [2; 3; 6] /\ c_mids c = [1; 5] /\ length (k_store (s_cls s)) = 2 /\ s_repo s = [1; 5] /\
            k_store (s_cls (step replace_names restore_names s Fail)) = [] /\ s_repo (step replace_names restore_names s Fail) = [].
Proof. eexists. vm_compute. repeat split; reflexivity. Qed.
Print Assumptions C15_nonvacuous.
