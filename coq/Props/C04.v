(* C04 — built-in base types convert text to values faithfully (work in progress). *)
From TxV Require Import Core.Base Model.Rx Gen.SrcRegex Gen.SrcBaseConv Model.BaseTypes.

Example C04_nonvacuous_string :
  load_many (src_env ascii_only) TSTRING [34;97;92;34;98;34;32;39;99;39;10]%N = Some [VStr [97;34;98]%N; VStr [99]%N].
Proof. vm_compute. reflexivity. Qed.
Print Assumptions C04_nonvacuous_string.
