(* C04 — built-in base types convert text to values faithfully.

   The regexes (rx_INT, rx_STRING, ...) are Gen/SrcRegex.v, regenerated from textx/lang.py through
   Python's own regex parser on every run; the conversion data (conv_string_test, conv_bool_exact, ...) are
   Gen/SrcBaseConv.v, regenerated from the processor lambdas of textx/metamodel.py.  `src_env u` is
   the flag set Arpeggio compiles them with (re.MULTILINE), for ANY classification u of the
   non-ASCII code points.  bt_match / convert / load_many are Model/BaseTypes.v (what a rule
   matches at a position, the default processor, the loop of `Model: v*=T;`).  The writing side
   (quote, dec_text, float_chars, bool_spellings) is Model/BaseLits.v. *)
From TxV Require Import Core.Base Model.Rx Gen.SrcRegex Gen.SrcBaseConv Model.BaseTypes Model.BaseLits
  Proofs.RxProofs Proofs.RxLibProofs Proofs.BaseTypesProofs.

(* ---- STRING.  Any strings that do not end in a backslash, each written between either quote
   character with only that quote escaped, separated by any (possibly empty) whitespace, on one line
   or several: loading `Model: v*=STRING;` returns exactly those strings. *)
Theorem C04_string_roundtrip : forall u (items : list (N * list N * list N)) (w0 : list N),
  (forall it, In it items -> str_item_ok it) -> forallb is_ws w0 = true ->
  load_many (src_env u) TSTRING (w0 ++ str_items_text items)
  = Some (map (fun it => match it with (_, s, _) => VStr s end) items).
Proof. exact string_roundtrip. Qed.
Print Assumptions C04_string_roundtrip.

(* the regex stops exactly at the closing quote whatever precedes and follows, and the processor
   gives the string back *)
Theorem C04_string_extent : forall u q s pre rest,
  q = 34%N \/ q = 39%N -> ends_with_bs s = false ->
  rx_match (src_env u) rx_STRING pre (quote q s ++ rest) = Some (length (quote q s))
  /\ string_conv (quote q s) = s.
Proof. intros u q s pre rest Hq Hbs. split; [apply string_match; assumption | apply string_conv_quote; exact Hq]. Qed.
Print Assumptions C04_string_extent.

Example C04_string_nonvacuous :
  str_item_ok (34%N, [97; 92; 34; 39; 98]%N, [32]%N) /\
  load_many (src_env ascii_only) TSTRING (str_items_text [(34%N, [97; 92; 34; 39; 98]%N, [32]%N); (39%N, [39; 34]%N, [])])
  = Some [VStr [97; 92; 34; 39; 98]%N; VStr [39; 34]%N].
Proof. vm_compute. repeat split; auto. Qed.
Print Assumptions C04_string_nonvacuous.

(* the hypothesis is needed: a string ending in a backslash, followed by another string, is not read back *)
Example C04_string_trailing_backslash :
  ends_with_bs [97; 92]%N = true /\
  load_many (src_env ascii_only) TSTRING (quote 34 [97; 92]%N ++ [32]%N ++ quote 34 [98]%N) = None.
Proof. vm_compute. split; reflexivity. Qed.
Print Assumptions C04_string_trailing_backslash.

(* ---- INT.  Every integer, written in decimal, followed by anything that is not a digit, is matched
   in full by INT and converted to the same integer. *)
Theorem C04_int_roundtrip : forall u (z : Z) pre rest,
  not_digit_next rest ->
  bt_match (src_env u) TINT pre (dec_text z ++ rest) = Some (TINT, length (dec_text z))
  /\ convert TINT (dec_text z) = VInt z.
Proof. exact int_roundtrip. Qed.
Print Assumptions C04_int_roundtrip.

Example C04_int_nonvacuous :
  dec_text (-1205) = [45; 49; 50; 48; 53]%N /\ not_digit_next [32; 55]%N /\
  load_many (src_env ascii_only) TINT ([45; 49; 50; 48; 53] ++ [32; 55])%N = Some [VInt (-1205); VInt 7].
Proof. vm_compute. repeat split; reflexivity. Qed.
Print Assumptions C04_int_nonvacuous.

(* ---- BOOL.  Each of the six spellings, followed by nothing or a non-word character, is matched in
   full and converted to the boolean it stands for. *)
Theorem C04_bool : forall u sp b pre rest,
  In (sp, b) bool_spellings -> not_word_next (src_env u) rest ->
  bt_match (src_env u) TBOOL pre (sp ++ rest) = Some (TBOOL, length sp) /\ convert TBOOL sp = VBool b.
Proof. exact bool_roundtrip. Qed.
Print Assumptions C04_bool.

Example C04_bool_nonvacuous :
  In ([70; 97; 108; 115; 101]%N, false) bool_spellings /\
  load_many (src_env ascii_only) TBOOL [70; 97; 108; 115; 101; 32; 49]%N = Some [VBool false; VBool true].
Proof. vm_compute. split; [right; right; left; reflexivity | reflexivity]. Qed.
Print Assumptions C04_bool_nonvacuous.

(* the same through NUMBER (delimited: followed by nothing, or by a character that is not a word
   character, a digit or '.'): STRICTFLOAT matches no part of the integer, INT takes all of it *)
Theorem C04_number_int_roundtrip : forall u (z : Z) pre rest,
  delimited (src_env u) rest ->
  bt_match (src_env u) TNUMBER pre (dec_text z ++ rest) = Some (TINT, length (dec_text z))
  /\ convert TINT (dec_text z) = VInt z.
Proof. exact number_int_roundtrip. Qed.
Print Assumptions C04_number_int_roundtrip.

(* ---- FLOAT / STRICTFLOAT / NUMBER.  Every literal  sign? (digits '.' digits* | '.' digits+ | digits+) exponent?
   that has a '.' or an exponent, followed by a delimiter, is matched IN FULL by FLOAT, by STRICTFLOAT and by
   NUMBER (which takes it as STRICTFLOAT); the processor is float() applied to exactly that text
   (float() itself is an oracle: convert keeps the literal). *)
Theorem C04_float_extent : forall u so m eo pre rest,
  mant_ok m = true -> exp_ok eo = true -> is_float_form m eo = true -> delimited (src_env u) rest ->
  bt_match (src_env u) TFLOAT pre (float_chars so m eo ++ rest) = Some (TFLOAT, length (float_chars so m eo))
  /\ bt_match (src_env u) TSTRICTFLOAT pre (float_chars so m eo ++ rest) = Some (TSTRICTFLOAT, length (float_chars so m eo))
  /\ bt_match (src_env u) TNUMBER pre (float_chars so m eo ++ rest) = Some (TSTRICTFLOAT, length (float_chars so m eo)).
Proof. exact float_extent. Qed.
Print Assumptions C04_float_extent.

Example C04_float_nonvacuous :
  let lit := float_chars (Some false) (MDot [49; 50]%N [53]%N) (Some (false, Some false, [48; 55]%N)) in
  mant_ok (MDot [49; 50]%N [53]%N) = true /\ lit = [45; 49; 50; 46; 53; 101; 45; 48; 55]%N /\
  load_many (src_env ascii_only) TNUMBER (lit ++ [32; 51; 32; 46; 53; 32; 49; 101; 51])%N
  = Some [VFloat lit; VInt 3; VFloat [46; 53]%N; VFloat [49; 101; 51]%N].
Proof. vm_compute. repeat split; reflexivity. Qed.
Print Assumptions C04_float_nonvacuous.

(* NUMBER never splits a literal: on sign? digits+ (any sign, leading zeros allowed) STRICTFLOAT has no match
   at all and INT takes the whole literal; with C04_float_extent: the alternative taken is STRICTFLOAT exactly
   for the literals with '.' or exponent and INT otherwise, always for the whole literal *)
Theorem C04_number_choice : forall u so ds pre rest,
  ds <> [] -> all_digits ds = true -> delimited (src_env u) rest ->
  rx_match (src_env u) rx_STRICTFLOAT pre ((sign_chars so ++ ds) ++ rest) = None
  /\ bt_match (src_env u) TNUMBER pre ((sign_chars so ++ ds) ++ rest) = Some (TINT, length (sign_chars so ++ ds)).
Proof. exact number_int_choice. Qed.
Print Assumptions C04_number_choice.

(* FLOAT takes a plain integer literal in full as well *)
Theorem C04_float_on_int : forall u so ds pre rest,
  ds <> [] -> all_digits ds = true -> delimited (src_env u) rest ->
  bt_match (src_env u) TFLOAT pre ((sign_chars so ++ ds) ++ rest) = Some (TFLOAT, length (sign_chars so ++ ds)).
Proof. exact float_on_int. Qed.
Print Assumptions C04_float_on_int.

(* the delimiter hypothesis is needed: "1.5x" is not a FLOAT at all, and NUMBER reads "1" from "1.x5" *)
Example C04_delimiter_needed :
  bt_match (src_env ascii_only) TFLOAT [] [49; 46; 53; 120]%N = None /\
  bt_match (src_env ascii_only) TNUMBER [] [49; 46; 120; 53]%N = Some (TINT, 1%nat).
Proof. vm_compute. split; reflexivity. Qed.
Print Assumptions C04_delimiter_needed.

(* ---- sequences through the loading loop, every base type.  A list of values written with whitespace between them
   (non-empty between two values, arbitrary before the first and after the last) loads through `Model: v*=T;` as
   exactly those values.  (STRING: C04_string_roundtrip above, where even empty separators are allowed.) *)
Theorem C04_int_seq : forall u (items : list (Z * list N)) w0,
  (forall z w, In (z, w) items -> forallb is_ws w = true) -> seps_ok items -> forallb is_ws w0 = true ->
  load_many (src_env u) TINT (w0 ++ items_text dec_text items) = Some (map (fun it => VInt (fst it)) items).
Proof. exact int_seq. Qed.
Print Assumptions C04_int_seq.

(* NUMBER: integers and float literals mixed; each integer comes back as that int, each float literal is handed
   in full to float() *)
Theorem C04_number_seq : forall u (items : list (numlit * list N)) w0,
  (forall n w, In (n, w) items -> numlit_ok n = true /\ forallb is_ws w = true) -> seps_ok items ->
  forallb is_ws w0 = true ->
  load_many (src_env u) TNUMBER (w0 ++ items_text numlit_text items)
  = Some (map (fun it => match fst it with
                         | NLInt z => VInt z
                         | NLFloat so m eo => VFloat (float_chars so m eo)
                         end) items).
Proof. exact number_seq. Qed.
Print Assumptions C04_number_seq.

Theorem C04_float_seq : forall u t (items : list (numlit * list N)) w0,
  t = TFLOAT \/ t = TSTRICTFLOAT ->
  (forall n w, In (n, w) items -> numlit_ok n = true /\ numlit_is_float n = true /\ forallb is_ws w = true) ->
  seps_ok items -> forallb is_ws w0 = true ->
  load_many (src_env u) t (w0 ++ items_text numlit_text items) = Some (map (fun it => VFloat (numlit_text (fst it))) items).
Proof. exact float_seq. Qed.
Print Assumptions C04_float_seq.

Theorem C04_bool_seq : forall u (items : list (list N * bool * list N)) w0,
  (forall sp b w, In (sp, b, w) items -> In (sp, b) bool_spellings /\ forallb is_ws w = true) -> seps_ok items ->
  forallb is_ws w0 = true ->
  load_many (src_env u) TBOOL (w0 ++ items_text (fun sb => fst sb) items) = Some (map (fun it => VBool (snd (fst it))) items).
Proof. exact bool_seq. Qed.
Print Assumptions C04_bool_seq.

Example C04_seq_nonvacuous :
  let items := [(NLInt (-12), [32]%N); (NLFloat None (MLead [53]%N) None, [10; 9]%N); (NLInt 7, [])] in
  seps_ok items /\ forallb (fun it => numlit_ok (fst it)) items = true /\
  items_text numlit_text items = [45; 49; 50; 32; 46; 53; 10; 9; 55]%N /\
  load_many (src_env ascii_only) TNUMBER ([32]%N ++ items_text numlit_text items)
  = Some [VInt (-12); VFloat [46; 53]%N; VInt 7].
Proof. vm_compute. repeat split; try reflexivity; discriminate. Qed.
Print Assumptions C04_seq_nonvacuous.

(* the separator hypothesis is needed: "1-2" is two INTs, but "12" written as "1" "2" without a separator is one *)
Example C04_separator_needed :
  load_many (src_env ascii_only) TINT (dec_text 1 ++ dec_text 2) = Some [VInt 12].
Proof. vm_compute. reflexivity. Qed.
Print Assumptions C04_separator_needed.

(* ---- conversely, for EVERY text: whatever FLOAT or STRICTFLOAT matches ends at a delimiter (end of text or a
   character that is neither a word character nor '.'), so a number is never cut out of a longer word such as
   `1.5x`, `3.method` or `1.5.2` *)
Theorem C04_float_match_delimited : forall u t pre text n,
  t = TFLOAT \/ t = TSTRICTFLOAT ->
  bt_match (src_env u) t pre text = Some (t, n) ->
  exists lit rest, text = lit ++ rest /\ length lit = n /\
    match rest with [] => True | c :: _ => is_word (src_env u) c = false /\ c <> 46%N end.
Proof. exact float_match_delimited. Qed.
Print Assumptions C04_float_match_delimited.

Example C04_float_match_delimited_nonvacuous :
  bt_match (src_env ascii_only) TFLOAT [] [49; 46; 53; 45; 50]%N = Some (TFLOAT, 3%nat) /\
  load_alts (src_env ascii_only) [TFLOAT; TID] [49; 46; 53; 120]%N = None /\
  load_alts (src_env ascii_only) [TNUMBER; TID] [49; 101; 53; 101]%N
  = Some [(0%nat, VInt 1, 0%nat, 1%nat); (1%nat, VStr [101; 53; 101]%N, 1%nat, 4%nat)].
Proof. vm_compute. repeat split; reflexivity. Qed.
Print Assumptions C04_float_match_delimited_nonvacuous.

(* ---- the engine's fuel is never exhausted: every fuel above lo + |rest| gives the same list of successes
   (so the out-of-fuel value [] of rep_loop plays no role in any match) *)
Theorem C04_rx_fuel : forall E g lo hi r st fuel,
  lo + length (snd st) < fuel -> ends E (RRep g lo hi r) st = rep_loop (ends E r) g lo hi fuel st.
Proof. exact ends_rep_fuel. Qed.
Print Assumptions C04_rx_fuel.

Example C04_rx_fuel_nonvacuous :
  ends (env_ml ascii_only) (RRep true 1 None (RSet false [IRange 48 57])) ([], [49; 50; 97]%N)
  = [([50; 49]%N, [97]%N); ([49]%N, [50; 97]%N)].
Proof. vm_compute. reflexivity. Qed.
Print Assumptions C04_rx_fuel_nonvacuous.

(* ---- general facts about the engine, for reuse by other properties (Proofs/RxLibProofs.v) *)

(* a literal pattern (as the translator emits it) matches exactly when the input starts with the literal *)
Theorem C04_rx_literal : forall E l pre s,
  rx_match E (rx_lit l) pre s = if lit_pre E l s then Some (length l) else None.
Proof. exact rx_match_lit. Qed.
Print Assumptions C04_rx_literal.

(* the keyword pattern `lit\b`: the literal, then a word boundary between the last consumed character and the next.
   (Proofs/RxKwProofs.rx_kw_agrees_with_kw_match: this is the hand-written kw_match of Model/Kw.v, for every
   literal, input and position.) *)
Theorem C04_rx_keyword : forall E l pre s,
  rx_match E (rx_kw l) pre s =
  if (lit_pre E l s && word_boundary E (rev (firstn (length l) s) ++ pre, skipn (length l) s))%bool
  then Some (length l) else None.
Proof. exact rx_match_kw. Qed.
Print Assumptions C04_rx_keyword.

(* IGNORECASE: for EVERY regex of the subset, inputs that differ only in the case of ASCII letters (before and
   after the match position) give the same match *)
Theorem C04_rx_ignorecase : forall E r pre1 pre2 rest1 rest2,
  e_ignorecase E = true ->
  Forall2 (fun a b => lower_ascii a = lower_ascii b) pre1 pre2 ->
  Forall2 (fun a b => lower_ascii a = lower_ascii b) rest1 rest2 ->
  rx_match E r pre1 rest1 = rx_match E r pre2 rest2.
Proof. exact rx_match_ignorecase. Qed.
Print Assumptions C04_rx_ignorecase.

Example C04_rx_lib_nonvacuous :
  let E := mkenv true true false ascii_only in
  rx_match E (rx_kw [105; 102]%N) [] [73; 70; 32; 120]%N = Some 2%nat /\
  rx_match E (rx_kw [105; 102]%N) [] [105; 102; 120]%N = None /\
  rx_match (env_ml ascii_only) (rx_lit [105; 102]%N) [] [73; 70]%N = None /\
  Forall2 (fun a b => lower_ascii a = lower_ascii b) [73; 70; 32; 120]%N [105; 102; 32; 88]%N.
Proof. vm_compute. repeat split; try reflexivity; repeat constructor. Qed.
Print Assumptions C04_rx_lib_nonvacuous.
