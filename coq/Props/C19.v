(* C19 - memoization never changes parse results.

   Model: Model/Peg.v ([run g cfg orc memo fuel input]: the Arpeggio interpreter on the parser model
   dumped from the live textX parser, parameterised by the terminal oracle and the memoization flag).

   The class: [ctx_constant g] = no node sets rule-level ws/skipws, no eolterm repetition, and the
   comment model is absent or a single terminal (a Match node is never memoized, so no memoizable
   node is shared with the main grammar).  Each exclusion is shown necessary by a refuted theorem with
   a vm_compute witness that replays on the implementation (corpus/C19): rule modifier, eolterm, rule
   shared with the Comment rule, Comment rule that is not a single terminal. *)
From TxV Require Import Core.Base Model.PegSyntax Model.Peg Proofs.PegProofs Proofs.PegMemo Proofs.PegFuel Proofs.PegTerm Proofs.PegErrPos.

(* For every grammar in the class (sequences, ordered choice, optional, repetitions with separators,
   unordered groups, predicates, suppression, any terminals; optional single-terminal Comment rule),
   every parser configuration (skipws on or off, any ws), every terminal oracle, every input and every
   fuel for which the un-memoized interpreter terminates, the memoized interpreter returns exactly the
   same outcome: the same parse tree (node ids, positions, lengths, suppress flags) on acceptance, the
   same error position on rejection. *)
Theorem C19_memo_safe :
  forall g cfg orc fuel input,
    ctx_constant g = true ->
    not_aborted (run g cfg orc false fuel input) ->
    run g cfg orc true fuel input = run g cfg orc false fuel input.
Proof. intros g cfg orc fuel input Hc Hn. exact (memo_safe g input orc Hc cfg fuel Hn). Qed.
Print Assumptions C19_memo_safe.

(* Fuel is irrelevant once it suffices (for EVERY grammar, also outside the class, and both
   memoization settings): an outcome other than "out of fuel" is the outcome for every larger fuel. *)
Theorem C19_run_fuel_mono :
  forall g cfg orc memo f f' input,
    f <= f' -> run g cfg orc memo f input <> Aborted 0 ->
    run g cfg orc memo f' input = run g cfg orc memo f input.
Proof. exact run_fuel_mono. Qed.
Print Assumptions C19_run_fuel_mono.

(* hence the two interpreters may be given different (sufficient) amounts of fuel *)
Theorem C19_memo_safe_any_fuel :
  forall g cfg orc f f' input,
    ctx_constant g = true ->
    not_aborted (run g cfg orc false f input) -> f <= f' ->
    run g cfg orc true f' input = run g cfg orc false f input.
Proof. exact memo_safe_any_fuel. Qed.
Print Assumptions C19_memo_safe_any_fuel.

(* non-vacuity with a Comment rule: `Model: xs+=X[','] ';' | xs+=X[','] '.'; X: 'x' | /\d+/;
   Comment: /\/\/.*?$/;` accepts `x, // c\n 1, x.` with memoization on *)
Example C19_memo_safe_comment_nonvacuous :
  ctx_constant g_exc = true /\ c_skipws c_default = true /\
  accepts (run g_exc c_default (orc_of tbl_exc) true 100 in_exc) = true /\
  run g_exc c_default (orc_of tbl_exc) true 100 in_exc = run g_exc c_default (orc_of tbl_exc) false 100 in_exc.
Proof. exact example_in_class_comment. Qed.
Print Assumptions C19_memo_safe_comment_nonvacuous.

(* non-vacuity of the hypotheses: a grammar in the class with backtracking over a shared rule
   (`Model: xs+=X[','] ';' | xs+=X[','] '.'; X: 'x' | /\d+/;`), accepted `x, 1, x.` and rejected
   `x, 1, x!` (error position 7), with memoization on *)
Example C19_memo_safe_nonvacuous :
  ctx_constant g_ex = true /\
  accepts (run g_ex c_default (orc_of tbl_ex0) true 100 in_ex0) = true /\
  run g_ex c_default (orc_of tbl_ex0) true 100 in_ex0 = run g_ex c_default (orc_of tbl_ex0) false 100 in_ex0 /\
  run g_ex c_default (orc_of tbl_ex1) false 100 in_ex1 = SyntaxErr 7 /\
  run g_ex c_default (orc_of tbl_ex1) true 100 in_ex1 = SyntaxErr 7.
Proof. exact example_in_class. Qed.
Print Assumptions C19_memo_safe_nonvacuous.

(* Outside the class the property fails in the faithful model (and on the implementation):
   a rule modifier changes the whitespace mode, the packrat cache is keyed by position only.
   `Model: a=A | b=B; A[noskipws]: x=X 'q'; B: x=X 'r'; X: 'x' 'y';` on `x y r` *)
Theorem C19_refuted :
  exists g c orc fuel input,
    ctx_constant g = false /\
    accepts (run g c orc false fuel input) = true /\
    run g c orc true fuel input = SyntaxErr 1.
Proof. exists g_probe, c_default, (fun _ _ => None), 100, in_probe. exact refuted_probe. Qed.
Print Assumptions C19_refuted.

(* eolterm: `Model: ('a' X 'q')*[eolterm] 'a' X 'r'; X: 'x' 'y';` on `a x\ny r` *)
Theorem C19_eolterm_refuted :
  exists g c orc fuel input,
    ctx_constant g = false /\
    accepts (run g c orc false fuel input) = true /\
    run g c orc true fuel input = SyntaxErr 3.
Proof. exists g_eol, c_default, (orc_of tbl_eol0), 100, in_eol0. exact refuted_eolterm. Qed.
Print Assumptions C19_eolterm_refuted.

(* a rule shared between the Comment rule and the main grammar:
   `Model: ('k' | CB) 'r'; Comment: CL | CB; CL: /\/\/.*?$/; CB: '#' 'x';` on `#// c\n x r` *)
Theorem C19_comment_shared_refuted :
  exists g c orc fuel input,
    ctx_constant g = false /\
    accepts (run g c orc false fuel input) = true /\
    run g c orc true fuel input = SyntaxErr 0.
Proof. exists g_cmt, c_default, (orc_of tbl_cmt0), 100, in_cmt0. exact refuted_comment_shared. Qed.
Print Assumptions C19_comment_shared_refuted.

(* a Comment rule with two alternatives and no whitespace modifier anywhere:
   `Model: B 'q' | 'b'; B: /[^;\n]+/ 'x'; Comment: /\/\/.*?$/ | /\/\*(.|\n)*?\*\//;` on `b//\n/**/`
   is rejected without memoization (comment_positions is consulted while parsing comments, so the
   block comment at 4 is jumped over) and accepted with it (the Comment rule's own cache entry
   answers first).  So a memoizable comment model must be excluded from the class. *)
Theorem C19_comment_model_refuted :
  exists g c orc fuel input,
    ctx_constant g = false /\
    run g c orc false fuel input = SyntaxErr 8 /\
    accepts (run g c orc true fuel input) = true.
Proof.
  exists g_cm2, c_default, (orc_of tbl_cm2), 100, in_cm2.
  split; [reflexivity | exact refuted_comment_model].
Qed.
Print Assumptions C19_comment_model_refuted.

(* ---------------------------------------------------------------- termination of the interpreter
   (PEG core; used by the properties that state interpreter-level theorems "if the run is not Aborted 0").
   For grammar tables accepted by the decidable check [terminating rxn g] (Proofs/PegTerm.v: no left
   recursion w.r.t. a nullability over-approximation, repetition elements that cannot be truthy without
   consuming, a Comment rule that cannot succeed without consuming; unordered groups included), every
   configuration, both memoization settings, every oracle that stays inside the input and whose regex
   matches are non-empty for the oracle ids with [rxn o = false], the interpreter does not run out of
   fuel once the fuel reaches the computable [fuel_bound rxn g input]. *)
Theorem PEG_run_terminates :
  forall rxn g c orc m input f,
    terminating rxn g = true -> orc_sane g input orc ->
    (forall o, rxn o = false -> forall p l, orc o p = Some l -> 0 < l) ->
    fuel_bound rxn g input <= f -> run g c orc m f input <> Aborted 0.
Proof. exact run_terminates. Qed.
Print Assumptions PEG_run_terminates.

Example PEG_run_terminates_nonvacuous :
  terminating none_nullable g_ex = true /\
  orc_sane g_ex [120;44;120;46]%N (fun _ _ => None) /\ orc_pos (fun _ _ => None) /\
  accepts (run g_ex c_default (fun _ _ => None) true (fuel_bound none_nullable g_ex [120;44;120;46]%N) [120;44;120;46]%N) = true.
Proof. exact terminates_example. Qed.
Print Assumptions PEG_run_terminates_nonvacuous.

(* outside the class, left recursion `Model: A; A: A 'x' | 'y';`: the check rejects the table and the
   model is out of fuel for EVERY fuel, input, oracle and configuration (the real parser dies with
   RecursionError) *)
Theorem PEG_leftrec_refuted :
  forall c orc input f,
    terminating all_nullable g_leftrec = false /\ run g_leftrec c orc false f input = Aborted 0.
Proof. exact leftrec_never_terminates. Qed.
Print Assumptions PEG_leftrec_refuted.

(* outside the class, a repetition whose element is truthy without consuming `Model: ('y'* | 'b')* 'c';`:
   rejected by the check; the real parser loops forever, the model is out of fuel (fuel 1500 shown;
   by C19_run_fuel_mono then for every smaller fuel) *)
Theorem PEG_loop_refuted :
  terminating all_nullable g_loop = false /\
  run g_loop (mkConfig true [9;10;13;32]%N) (fun _ _ => None) false 1500 [99]%N = Aborted 0.
Proof. exact loop_aborts_1500. Qed.
Print Assumptions PEG_loop_refuted.

(* the failure position reported for a rejected input lies inside the input (every grammar table,
   configuration, memoization setting, fuel; oracle inside the input) - used by C28 *)
Theorem PEG_run_syntaxerr_in_text :
  forall g c orc m f input p,
    orc_sane g input orc -> run g c orc m f input = SyntaxErr p -> p <= length input.
Proof. exact run_syntaxerr_in_text. Qed.
Print Assumptions PEG_run_syntaxerr_in_text.
