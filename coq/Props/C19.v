(* C19 - memoization never changes parse results. *)
From TxV Require Import Core.Base Model.PegSyntax Model.Peg Proofs.PegProofs.

(* Outside the class ctx_constant the property fails in the faithful model (and on the
   implementation: corpus/C19/probe.json): a rule modifier changes the whitespace mode, the
   packrat cache is keyed by position only. *)
Theorem C19_refuted :
  exists g c orc fuel input,
    ctx_constant g = false /\
    accepts (run g c orc false fuel input) = true /\
    run g c orc true fuel input = SyntaxErr 1.
Proof. exists g_probe, c_default, (fun _ _ => None), 100, in_probe. exact refuted_probe. Qed.
Print Assumptions C19_refuted.
