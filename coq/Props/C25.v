(* C25 — grammar imports resolve rules in the documented order. *)
From TxV Require Import Core.Base Model.Imports Proofs.ImportsProofs.

(* Unqualified names (metamodel.__getitem__, any meta-model state, any number of imports):
   the rule of the current namespace if it has one; otherwise the first namespace of the
   current namespace's import list, in import order, that has one. *)
Theorem C25_unqualified : forall s cur name c, has_dot name = false ->
  (lookup s cur name = Some c <->
   lookup_in s cur name = Some c \/
   (lookup_in s cur name = None /\
    exists pre i post, imports_of s cur = pre ++ i :: post
                       /\ (forall j, In j pre -> lookup_in s j name = None)
                       /\ lookup_in s i name = Some c)).
Proof. exact lookup_unqualified. Qed.
Print Assumptions C25_unqualified.

Theorem C25_unqualified_none : forall s cur name, has_dot name = false ->
  (lookup s cur name = None <->
   lookup_in s cur name = None /\ forall j, In j (imports_of s cur) -> lookup_in s j name = None).
Proof. exact lookup_unqualified_none. Qed.
Print Assumptions C25_unqualified_none.

(* A qualified name selects the named namespace's rule. *)
Theorem C25_qualified : forall s cur q n, has_dot n = false ->
  lookup s cur (q ++ DOT :: n) = lookup_in s q n.
Proof. exact lookup_qualified. Qed.
Print Assumptions C25_qualified.

(* Known finding: in a cycle of imports the imported file's second pass runs before the
   importing file has any rule.  (1) a imports b; b imports a, c: b's X silently becomes c.X
   although a.X is the first import in order that defines X. *)
Theorem C25_cycles_refuted :
  serr (load_main ex_silent [97]%N) = None /\
  exists l, In l (links (load_main ex_silent [97]%N)) /\ l_ns l = [98]%N /\ l_name l = [88]%N /\
            option_map cls_key (l_target l) = Some ([99], [88])%N /\
            spec_resolve ex_silent (l_ns l) (l_name l) = Some ([97], [88])%N.
Proof. exact cycle_silent_wrong. Qed.
Print Assumptions C25_cycles_refuted.

(* (2) a imports b; b imports a and refers to a's X: the load fails with 'Unexisting rule'. *)
Theorem C25_cycles_unexisting_refuted :
  serr (load_main ex_unexisting [97]%N) = Some (EUnexisting [98] [[88]])%N /\
  spec_resolve ex_unexisting [98]%N [88]%N = Some ([97], [88])%N.
Proof. exact cycle_unexisting_fails. Qed.
Print Assumptions C25_cycles_unexisting_refuted.
