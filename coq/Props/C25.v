(* C25 — grammar imports resolve rules in the documented order.

   Model: Model/Imports.v (namespaces, namespace stack as the nesting of loads, _new_import,
   _new_class/_cls_fqn, __getitem__, the second pass of every grammar file).
   [load_main fs main] is metamodel_from_file(main) for the folder contents [fs]
   (namespace name -> imports and rules with their references); [spec_resolve fs cur name] is
   the documented resolution computed from the file contents alone. *)
From TxV Require Import Core.Base Gen.SrcImports Model.Imports Proofs.ImportsProofs.

(* ---- tie to the current source (Gen/SrcImports.v is regenerated from textx/metamodel.py) ---- *)

(* The look-up driven by the search steps found in TextXMetaModel.__getitem__ (their order,
   the slice/reversal of the import list, the place where a qualified name is split) is the
   documented look-up.  Re-proved on every run; fails when the source searches differently. *)
Theorem C25_source_lookup_order : forall s cur name, lookup s cur name = lookup_doc s cur name.
Proof. exact lookup_src_doc. Qed.
Print Assumptions C25_source_lookup_order.

(* _new_import as found in the source registers the import on every import statement (not only
   when the file is loaded), normalises the import name, a new namespace starts with the
   built-in namespace as its only import, _cls_fqn builds namespace "." rule name, and the imports
   of the MAIN grammar are relative to its own folder whatever its file name is (dots in the name;
   fix 76155a4).  The load theorems below are stated for main file names without a dot; names
   with a dot are covered by this equation and by the correspondence. *)
Theorem C25_source_imports :
  (forall main rec stk cur imp s, has_dot main = false ->
     new_import main rec stk cur imp s = new_import_doc rec stk cur imp s) /\
  (forall cur imp, abs_import cur imp = norm_dots (rel_import cur imp)) /\
  initial_imports = [BASE] /\
  (forall c, fqn c = fqn_doc c) /\
  main_in_root = true /\
  (forall main imp, abs_import_src main main imp = norm_dots imp).
Proof. exact (conj new_import_src_doc (conj abs_import_normalised (conj initial_imports_base (conj fqn_src_doc (conj main_in_root_doc abs_import_main))))). Qed.
Print Assumptions C25_source_imports.

(* The load algorithm as found in the source (textx/lang.py language_from_str ->
   arpeggio.visit_parse_tree, the visitor's visit_import_stm -> metamodel._new_import ->
   metamodel_from_file recursion): import statements are visited in textual order, both passes of
   an imported grammar run inside _new_import before the importer continues (the source of the
   cyclic-import finding), and the namespace is entered before and left after the nested load.
   With these generated facts the source-driven load is the documented one; every theorem below
   about load_main is proved through this equation and so re-proved against the source. *)
Theorem C25_source_load : forall fs main, has_dot main = false -> no_refs fs ->
  load_main fs main = load_main_doc fs main /\
  (forall fuel stk ns s, load main fuel fs stk ns s = load_doc fuel fs stk ns s).
Proof. exact (fun fs main H H' => conj (load_main_src_doc fs main H H') (load_src_doc fs main H H')). Qed.
Print Assumptions C25_source_load.

(* ---- the look-up itself, for every meta-model state and any number of imports ---- *)

(* Unqualified names: the rule of the current namespace if it has one; otherwise the first
   namespace of the current namespace's import list, in import order, that has one. *)
Theorem C25_unqualified : forall s cur name c, has_dot name = false ->
  (lookup s cur name = Some c <->
   lookup_in s cur name = Some c \/
   (lookup_in s cur name = None /\
    exists pre i post, imports_of s cur = pre ++ i :: post
                       /\ (forall j, In j pre -> lookup_in s j name = None)
                       /\ lookup_in s i name = Some c)).
Proof. exact lookup_unqualified. Qed.
Print Assumptions C25_unqualified.

Theorem C25_unqualified_none : forall s cur name, has_dot name = false ->
  (lookup s cur name = None <->
   lookup_in s cur name = None /\ forall j, In j (imports_of s cur) -> lookup_in s j name = None).
Proof. exact lookup_unqualified_none. Qed.
Print Assumptions C25_unqualified_none.

(* A qualified name: when its first part is an alias of a referenced language (`reference lang as
   alias`) it is resolved in that language's meta-model, otherwise it selects the named
   grammar-file namespace's rule. *)
Theorem C25_qualified : forall s cur q n, has_dot n = false ->
  lookup s cur (q ++ DOT :: n) =
  match aget q (reflangs s) with
  | Some lang => ext_lookup (slangs s) lang n
  | None => lookup_in s q n
  end.
Proof. exact lookup_qualified. Qed.
Print Assumptions C25_qualified.

(* ---- loading a tree of grammar files (any import graph, any depth, unbounded sizes) ---- *)

(* Every reference resolved while loading (rule references, attribute classes, [Class] links,
   qualified or not, in the main grammar and in every imported one) is the documented one:
   own file first, then built-in types, then the imported files in import order; a qualified
   name selects the named file's rule — provided no grammar imports a grammar that is still
   being loaded (no import cycle was followed: [backs] is the log of such imports).
   Hypotheses: no grammar file is called __base__.tx. *)
Theorem C25_resolution_order : forall fs main, has_dot main = false -> no_refs fs ->
  aget BASE fs = None -> main <> BASE ->
  serr (load_main fs main) = None -> backs (load_main fs main) = [] ->
  forall l, In l (links (load_main fs main)) ->
    option_map cls_key (l_target l) = spec_resolve fs (l_ns l) (l_name l).
Proof. exact links_spec_src. Qed.
Print Assumptions C25_resolution_order.

(* The same for import cycles that are harmless: every followed import (importer, imported)
   of a grammar still being loaded is such that each unqualified name written in the importer
   is defined by the importer itself, is a built-in, or is not defined by the imported grammar
   ([safe], a decidable predicate on the file contents and the log; self-imports always
   qualify).  Its negation is exactly the class of the known finding. *)
Theorem C25_resolution_order_cycles : forall fs main, has_dot main = false -> no_refs fs ->
  aget BASE fs = None -> main <> BASE ->
  serr (load_main fs main) = None -> safe fs (load_main fs main) = true ->
  forall l, In l (links (load_main fs main)) ->
    option_map cls_key (l_target l) = spec_resolve fs (l_ns l) (l_name l).
Proof. exact links_spec_safe_src. Qed.
Print Assumptions C25_resolution_order_cycles.

(* metamodel[name] after ANY successful load (import cycles included) is the documented rule
   as seen from the main grammar ... *)
Theorem C25_metamodel_getitem : forall fs main, has_dot main = false -> no_refs fs ->
  aget BASE fs = None -> main <> BASE -> serr (load_main fs main) = None ->
  forall name c, lookup (load_main fs main) main name = Some c ->
    Some (cls_key c) = spec_resolve fs main name.
Proof. exact final_lookup_src. Qed.
Print Assumptions C25_metamodel_getitem.

(* ... and an unqualified name that is not found has no documented rule either. *)
Theorem C25_metamodel_getitem_none : forall fs main, has_dot main = false -> no_refs fs ->
  aget BASE fs = None -> main <> BASE -> serr (load_main fs main) = None ->
  forall name, has_dot name = false -> lookup (load_main fs main) main name = None ->
    spec_resolve fs main name = None.
Proof. exact final_lookup_none_src. Qed.
Print Assumptions C25_metamodel_getitem_none.

(* Each class sits under its rule name in the namespace of its grammar file and reports the
   file-based qualified name (built-ins report the bare name); holds for every load, failed
   ones included. *)
Theorem C25_fqn : forall fs main, has_dot main = false -> no_refs fs -> main <> BASE ->
  forall a n c, lookup_in (load_main fs main) a n = Some c ->
    c_ns c = a /\ c_name c = n /\ fqn c = (if str_eqb a BASE then n else a ++ DOT :: n).
Proof. exact classes_fqn_src. Qed.
Print Assumptions C25_fqn.

(* One set of classes per grammar file, however many import paths lead to it: two table
   entries never share a class object (with C25_fqn an entry's class is determined by its
   namespace and rule name), and a successful load creates, besides the 9 built-in classes,
   exactly one class per rule of every file read (each file being read once,
   C25_each_file_read_once). *)
Theorem C25_one_class_set_per_file : forall fs main, has_dot main = false -> no_refs fs -> main <> BASE ->
  (forall a n c a' n' c',
     lookup_in (load_main fs main) a n = Some c -> lookup_in (load_main fs main) a' n' = Some c' ->
     c_id c = c_id c' -> a = a' /\ n = n') /\
  (serr (load_main fs main) = None ->
   created (load_main fs main) = length base_names + nrules_of fs (loads (load_main fs main))).
Proof. exact one_class_set_src. Qed.
Print Assumptions C25_one_class_set_per_file.

(* Every grammar file is read at most once, however many import paths (or cycles) lead to
   it; holds for failed loads too. *)
Theorem C25_each_file_read_once : forall fs main, has_dot main = false -> no_refs fs -> main <> BASE -> NoDup (loads (load_main fs main)).
Proof. exact loads_once_src. Qed.
Print Assumptions C25_each_file_read_once.

(* Loading terminates for every import graph (cycles of imports included): the fuel
   |fs|+1 used by load_main is never exhausted, so EFuel is not a possible outcome. *)
Theorem C25_terminates : forall fs main, has_dot main = false -> no_refs fs -> serr (load_main fs main) <> Some EFuel.
Proof. exact load_main_terminates_src. Qed.
Print Assumptions C25_terminates.

(* ---- known finding: import cycles ---- *)
(* In a cycle the imported file's second pass runs before the importing file has any rule.
   (1) a imports b; b imports a, c: b's X silently becomes c.X although a.X is the first
   import in order that defines X. *)
Theorem C25_cycles_refuted :
  serr (load_main ex_silent [97]%N) = None /\
  exists l, In l (links (load_main ex_silent [97]%N)) /\ l_ns l = [98]%N /\ l_name l = [88]%N /\
            option_map cls_key (l_target l) = Some ([99], [88])%N /\
            spec_resolve ex_silent (l_ns l) (l_name l) = Some ([97], [88])%N.
Proof. exact cycle_silent_wrong. Qed.
Print Assumptions C25_cycles_refuted.

(* (2) a imports b; b imports a and refers to a's X: the load fails with 'Unexisting rule'. *)
Theorem C25_cycles_unexisting_refuted :
  serr (load_main ex_unexisting [97]%N) = Some (EUnexisting [98] [[88]])%N /\
  spec_resolve ex_unexisting [98]%N [88]%N = Some ([97], [88])%N.
Proof. exact cycle_unexisting_fails. Qed.
Print Assumptions C25_cycles_unexisting_refuted.

(* ---- non-vacuity ---- *)
Example C25_nonvacuous :
  aget BASE ex_diamond = None /\ serr (load_main ex_diamond [97]%N) = None /\
  backs (load_main ex_diamond [97]%N) = [] /\ length (links (load_main ex_diamond [97]%N)) = 6 /\
  loads (load_main ex_diamond [97]%N) = [[97]; [98]; [100]; [99]]%N /\
  created (load_main ex_diamond [97]%N) = 9 + 8 /\ nrules_of ex_diamond [[97]; [98]; [100]; [99]]%N = 8 /\
  option_map cls_key (lookup (load_main ex_diamond [97]%N) [97]%N [87]%N) = Some ([99], [87])%N /\
  option_map cls_key (lookup (load_main ex_diamond [97]%N) [97]%N [88]%N) = Some ([98], [88])%N /\
  option_map cls_key (lookup (load_main ex_diamond [97]%N) [97]%N [89]%N) = Some ([97], [89])%N.
Proof. vm_compute. repeat split; reflexivity. Qed.
Print Assumptions C25_nonvacuous.

(* a cyclic tree (mutual import and self-import) within the hypotheses of
   C25_resolution_order_cycles, and the finding witness outside them *)
Example C25_nonvacuous_harmless_cycle :
  aget BASE ex_harmless = None /\ serr (load_main ex_harmless [97]%N) = None /\
  backs (load_main ex_harmless [97]%N) = [([98], [97]); ([97], [97])]%N /\
  safe ex_harmless (load_main ex_harmless [97]%N) = true /\
  length (links (load_main ex_harmless [97]%N)) = 4 /\
  safe ex_silent (load_main ex_silent [97]%N) = false.
Proof. vm_compute. repeat split; reflexivity. Qed.
Print Assumptions C25_nonvacuous_harmless_cycle.

(* the hypothesis of C25_metamodel_getitem holds on a cyclic tree too (the finding witness) *)
Example C25_nonvacuous_cycle :
  serr (load_main ex_silent [97]%N) = None /\ backs (load_main ex_silent [97]%N) <> [] /\
  option_map cls_key (lookup (load_main ex_silent [97]%N) [97]%N [89]%N) = Some ([98], [89])%N.
Proof. vm_compute. repeat split; try reflexivity. discriminate. Qed.
Print Assumptions C25_nonvacuous_cycle.
