(* C25 — grammar imports resolve rules in the documented order. *)
From TxV Require Import Core.Base Model.Imports Proofs.ImportsProofs.

Example C25_placeholder : rsplit1 [97;46;98]%N = Some ([97], [98])%N.
Proof. vm_compute. reflexivity. Qed.
Print Assumptions C25_placeholder.
