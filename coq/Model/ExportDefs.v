(* Data types shared by the translated facts of textx/export.py (Gen/SrcExport.v) and the export model. *)
From TxV Require Import Core.Base.

(* what fills a hole of an output template; the meaning of each kind is `fills` in Model/Export.v *)
Inductive hkind :=
| HDigits      (* id(...) / an enumerate index: decimal digits *)
| HIdent       (* a grammar identifier: rule, class or attribute name, fqn, type(...).__name__ *)
| HPlain       (* str() of an int/float/bool, a multiplicity constant: letters, digits and . + - * _ *)
| HEscaped     (* dot_escape(...) *)
| HPrim        (* dot_repr(x) for a primitive x: the quoted, escaped, truncated text of a string, or HPlain text *)
| HHtml        (* html.escape(...): no angle brackets *)
| HRaw.        (* anything else: unescaped user text *)

(* a regular over-approximation of the texts one output statement can write *)
Inductive tx :=
| TLit (s : list N)
| THole (k : hkind)
| TCat (l : list tx)
| TAlt (l : list tx)        (* one of *)
| TStar (t : tx).           (* zero or more repetitions: accumulation in a loop, str.join *)
