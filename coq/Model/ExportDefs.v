From TxV Require Import Core.Base.
(* what fills a hole of an output template *)
Inductive hkind :=
| HDigits      (* id(...) / an index: decimal digits *)
| HIdent       (* a grammar identifier: rule, class or attribute name *)
| HConst       (* one of finitely many literal strings without a double quote *)
| HEscaped     (* dot_escape(...) *)
| HRepr        (* dot_repr(...) *)
| HPrim        (* str() of an int/float/bool, or a string already passed through dot_repr *)
| HSafeText    (* text assembled only from quote-free literals and the kinds above *)
| HRaw.        (* anything else: unescaped user text *)
Inductive tpart := Lit (s : list N) | Hole (k : hkind).
