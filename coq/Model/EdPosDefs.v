(* Data types shared by the generated Gen/SrcEdPos.v (facts read off textx/model.py by
   tools/translate/edpos_tr.py) and the editor-support model Model/EdPos.v. *)
From TxV Require Import Core.Base.

(* which position a RefRulePosition field is filled with *)
Inductive possrc := RefStart | RefEnd | TgtStart | TgtEnd.
(* the attribute pos_crossref_list is sorted by *)
Inductive ekeysrc := KRefStart | KRefEnd | KDefStart | KDefEnd.
(* pos_rule_dict.setdefault(pos, inst) / pos_rule_dict[pos] = inst *)
Inductive regmode := KeepFirst | Overwrite.
(* direction of one component of the sort key of the position map *)
Inductive order := Asc | Desc.
