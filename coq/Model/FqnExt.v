(* Extensions of the FQN model (C10):
   1. the specification in terms of the attributes the provider actually walks (`contains_w`), which
      also covers objects that are not textX objects (plain Python objects, extra attributes);
   2. ImportURI.__call__ (FQNImportURI / FQNGlobalRepo): the same FQN search started at the referring
      object, then at every local model, then at every builtin model (order from Gen.SrcFqn.import_order);
   3. FQN(scope_redirection_logic=...): find_obj with redirection lists and Postponed.
   No proofs here. *)
From TxV Require Import Core.Base Model.FqnDefs Gen.SrcFqn Model.Fqn.

(* ------------------------------------------------------------------ 1. walked-attribute specification *)
Definition contains_w (m : list obj) (o c : nat) : Prop :=
  exists ob a, get m o = Some ob /\ In a (o_attrs ob) /\ src_walked a = true /\ in_val c (a_val a).

Inductive chain_w (m : list obj) : nat -> list (list N) -> nat -> Prop :=
| chain_w_nil o : chain_w m o [] o
| chain_w_cons o c nm rest t :
    contains_w m o c -> name_of m c = Some nm -> chain_w m c rest t -> chain_w m o (nm :: rest) t.

Definition good_w (conf : nat -> nat -> bool) (m : list obj) (parts : list (list N)) (T s t : nat) : Prop :=
  chain_w m s parts t /\ conforms conf m t T = true.

(* nearest scope (referrer, parent, ...) at which G holds; generic in the per-scope relation G *)
Definition resolves_g (m : list obj) (G : nat -> nat -> Prop) (r t : nat) : Prop :=
  exists i s, scope_at m r i s /\ G s t /\ forall j s' t', j < i -> scope_at m r j s' -> ~ G s' t'.
Definition unresolvable_g (m : list obj) (G : nat -> nat -> Prop) (r : nat) : Prop :=
  forall i s t, scope_at m r i s -> ~ G s t.

Definition unique_on_w (m : list obj) (parts : list (list N)) : Prop :=
  forall o c1 c2 nm, In nm parts -> contains_w m o c1 -> contains_w m o c2 ->
                     name_of m c1 = Some nm -> name_of m c2 = Some nm -> c1 = c2.

Definition parents_decrease (m : list obj) : bool :=
  forallb (fun i => match parent_of m i with Some q => Nat.ltb q i | None => true end) (seq 0 (length m)).

(* what "walked" means, attribute by attribute *)
Definition public_name (a : attr) : bool :=
  (negb (is_prefix dunder (a_name a)) && negb (is_prefix txpre (a_name a)) && negb (str_eqb (a_name a) parent_name))%bool.
Definition walked_meaning (a : attr) : bool :=
  (public_name a && negb (a_call a) && (if a_decl a then a_cont a else true))%bool.

(* ------------------------------------------------------------------ 2. search across models *)
Fixpoint first_found (f : nat -> result) (starts : list nat) : result :=
  match starts with
  | [] => Unknown
  | s :: rest => match f s with Unknown => first_found f rest | r => r end
  end.

Definition search_starts (r : nat) (locals builtins : list nat) : list nat :=
  flat_map (fun ph => match ph with POwn => [r] | PLocal => locals | PBuiltin => builtins end) import_order.

(* ImportURI(FQN())(obj, attr, ObjCrossRef(text, T)); `locals`: roots of model_repository.local_models in
   iteration order, `builtins`: roots of metamodel.builtin_models; all models live in one table *)
Definition fqn_import_resolve (conf : nat -> nat -> bool) (m : list obj) (r : nat) (locals builtins : list nat)
           (text : list N) (T : nat) : result :=
  first_found (fun s => fqn_resolve conf m s text T) (search_starts r locals builtins).

(* specification: the first start at which the single-model specification resolves *)
Definition multi_resolves (R : nat -> nat -> Prop) (U : nat -> Prop) (starts : list nat) (t : nat) : Prop :=
  exists k s, nth_error starts k = Some s /\ R s t /\ forall j s', j < k -> nth_error starts j = Some s' -> U s'.
Definition multi_unresolvable (U : nat -> Prop) (starts : list nat) : Prop := forall s, In s starts -> U s.

(* ------------------------------------------------------------------ 3. scope redirection *)
Inductive rres := RList (l : list nat) | RPost.              (* scope_redirection_logic(obj) *)
Inductive fo := FNone | FObj (c : nat) | FPost | FOut.       (* None / object / Postponed / model fuel exhausted *)
Inductive xresult := XFound (t : nat) | XUnknown | XPostponed | XOutOfFuel.

Fixpoint first_fo (f : nat -> fo) (l : list nat) : fo :=
  match l with
  | [] => FNone
  | x :: l' => match f x with FNone => first_fo f l' | r => r end
  end.

Section Redirect.
  Variable walked : attr -> bool.
  Variable conf : nat -> nat -> bool.
  Variable redir : nat -> rres.
  Variable cur : nat.                     (* current_obj: never redirected *)

  Definition own (m : list obj) (p : nat) (nm : list N) : fo :=
    match find_obj walked m p nm with Some c => FObj c | None => FNone end.

  (* find_obj with `self.scope_redirection_logic is not None` *)
  Fixpoint find_obj_r (fuel : nat) (m : list obj) (p : nat) (nm : list N) : fo :=
    match fuel with
    | 0 => FOut
    | S f => if Nat.eqb p cur then own m p nm
             else match redir p with
                  | RPost => FPost
                  | RList l => match first_fo (fun x => find_obj_r f m x nm) l with
                               | FNone => own m p nm
                               | r => r
                               end
                  end
    end.

  Fixpoint find_path_r (rf : nat) (m : list obj) (p : nat) (parts : list (list N)) : fo :=
    match parts with
    | [] => FObj p
    | nm :: rest => match find_obj_r rf m p nm with
                    | FObj c => find_path_r rf m c rest
                    | r => r
                    end
    end.

  Definition find_obj_fqn_r (rf : nat) (m : list obj) (p : nat) (parts : list (list N)) (T : nat) : fo :=
    match find_path_r rf m p parts with
    | FObj t => if conforms conf m t T then FObj t else FNone
    | r => r
    end.

  Fixpoint find_referenced_r (fuel rf : nat) (m : list obj) (p : nat) (parts : list (list N)) (T : nat) : xresult :=
    match find_obj_fqn_r rf m p parts T with
    | FObj t => XFound t
    | FPost => XPostponed
    | FOut => XOutOfFuel
    | FNone => match parent_of m p with
               | None => XUnknown
               | Some q => match fuel with
                           | 0 => XOutOfFuel
                           | S f => find_referenced_r f rf m q parts T
                           end
               end
    end.
End Redirect.

(* FQN(scope_redirection_logic=redir)(r, attr, ObjCrossRef(text, T)); rf bounds the nesting of redirections *)
Definition fqn_resolve_r (conf : nat -> nat -> bool) (redir : nat -> rres) (rf : nat) (m : list obj) (r : nat)
           (text : list N) (T : nat) : xresult :=
  find_referenced_r src_walked conf redir r (length m) rf m r (split_dots text) T.

Definition lift_result (r : result) : xresult :=
  match r with Found t => XFound t | Unknown => XUnknown | OutOfFuel => XOutOfFuel end.

Fixpoint first_xfound (f : nat -> xresult) (starts : list nat) : xresult :=
  match starts with
  | [] => XUnknown
  | s :: rest => match f s with XUnknown => first_xfound f rest | r => r end
  end.

(* ImportURI(FQN(scope_redirection_logic=redir)): FQNImportURI(importAs=True) *)
Definition fqn_import_resolve_r (conf : nat -> nat -> bool) (redir : nat -> rres) (rf : nat) (m : list obj) (r : nat)
           (locals builtins : list nat) (text : list N) (T : nat) : xresult :=
  first_xfound (fun s => fqn_resolve_r conf redir rf m s text T) (search_starts r locals builtins).

(* an object reached by name lookup with redirection: contained (walked), or found in an object that
   stands in for the current one *)
Inductive reach (redir : nat -> rres) (cur : nat) (m : list obj) : nat -> nat -> Prop :=
| reach_own o c : contains_w m o c -> reach redir cur m o c
| reach_red o l x c : Nat.eqb o cur = false -> redir o = RList l -> In x l -> reach redir cur m x c ->
                      reach redir cur m o c.

Inductive chain_r (redir : nat -> rres) (cur : nat) (m : list obj) : nat -> list (list N) -> nat -> Prop :=
| chain_r_nil o : chain_r redir cur m o [] o
| chain_r_cons o c nm rest t :
    reach redir cur m o c -> name_of m c = Some nm -> chain_r redir cur m c rest t ->
    chain_r redir cur m o (nm :: rest) t.

Definition good_r (conf : nat -> nat -> bool) (redir : nat -> rres) (cur : nat) (m : list obj) (T : nat)
           (parts : list (list N)) (s t : nat) : Prop :=
  chain_r redir cur m s parts t /\ conforms conf m t T = true.

(* names unique among everything reachable from one object by one lookup step (contained and stand-in objects) *)
Definition unique_on_r (redir : nat -> rres) (cur : nat) (m : list obj) (parts : list (list N)) : Prop :=
  forall o c1 c2 nm, In nm parts -> reach redir cur m o c1 -> reach redir cur m o c2 ->
                     name_of m c1 = Some nm -> name_of m c2 = Some nm -> c1 = c2.
