(* Printing of Peg results; mirrored by tools/pegdump.py (canon_tree / canon_outcome). *)
From TxV Require Import Core.Base Core.Show Model.PegSyntax Model.Peg.
Open Scope string_scope.

Section Show.
Variable g : grammar.

Definition is_eof (nid : nat) : bool :=
  match get_node g nid with
  | Some nd => match n_kind nd with KEOF => true | _ => false end
  | None => false
  end.

Fixpoint show_tree (t : tree) : string :=
  match t with
  | T nid p len sup =>
    (if is_eof nid then "eof" else "t" ++ show_nat nid) ++ "@" ++ show_nat p ++ "+" ++ show_nat len
    ++ (if sup then "-" else "")
  | NT nid kids =>
    "n" ++ show_nat nid ++ "(" ++
    sjoin "," ((fix go (l : list tree) : list string :=
                  match l with [] => [] | x :: l' => show_tree x :: go l' end) kids) ++ ")"
  end.

Fixpoint show_res (r : res) : string :=
  match r with
  | RNone => "None"
  | RTree t => show_tree t
  | RList l =>
    "[" ++ sjoin "," ((fix go (l : list res) : list string :=
                         match l with [] => [] | x :: l' => show_res x :: go l' end) l) ++ "]"
  end.

Definition show_outcome (o : outcome) : string :=
  match o with
  | Parsed r => "P:" ++ show_res r
  | SyntaxErr p => "E:" ++ show_nat p
  | Aborted w => "A:" ++ show_nat w
  end.
End Show.

(* one correspondence case: both memoization settings *)
Definition show_case (g : grammar) (c : config) (tbl : list ((nat * nat) * nat)) (fuel : nat)
           (input : list N) : string :=
  show_outcome g (run g c (orc_of tbl) false fuel input) ++ " | " ++
  show_outcome g (run g c (orc_of tbl) true fuel input).
