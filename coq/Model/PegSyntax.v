(* Parser models (Arpeggio parsing-expression graphs) exactly as textX builds them.

   A grammar is a flat table of nodes; every reference from one parsing expression to
   another (children, separator, rule references, the comment model) is the index of the
   target node in [g_nodes].  The table is produced per case by tools/pegdump.py from the
   LIVE parser ([metamodel._parser_blueprint.parser_model] / [.comments_model]), so the
   grammar compiler of textX is not modelled here: its output is dumped.

   Regular expressions are never interpreted in Coq.  A terminal that needs Python's [re]
   (every RegExMatch, and StrMatch with ignore_case) carries an oracle id; the harness
   supplies the table (oracle id, position) -> matched length computed on the concrete input.
   All theorems are stated for an arbitrary oracle. *)
From TxV Require Import Core.Base.

Inductive kind :=
| KSeq                         (* arpeggio.Sequence (exact type)                         *)
| KChoice                      (* OrderedChoice                                           *)
| KOpt                         (* Optional                                                *)
| KStar                        (* ZeroOrMore  (n_sep, n_eolterm)                          *)
| KPlus                        (* OneOrMore   (n_sep, n_eolterm)                          *)
| KUnord                       (* UnorderedGroup (n_sep, n_eolterm)                       *)
| KAnd | KNot | KEmpty         (* syntax predicates                                       *)
| KEOF                         (* EndOfFile                                               *)
| KStr (s : list N) (oid : option nat)
                               (* StrMatch(to_match = s); oid = None: exact comparison done
                                  in Coq; oid = Some i: ignore_case, decided by oracle i    *)
| KRegex (oid : nat).          (* RegExMatch, matched length given by oracle oid           *)

Record node := mkNode {
  n_kind    : kind;
  n_kids    : list nat;          (* .nodes, as node ids                                   *)
  n_sep     : option nat;        (* .sep of repetitions                                   *)
  n_eolterm : bool;              (* .eolterm of repetitions                               *)
  n_rule    : list N;            (* .rule_name ('' when not a rule root)                  *)
  n_root    : bool;              (* .root: creates a NonTerminal                          *)
  n_suppress: bool;              (* .suppress                                             *)
  n_ws      : option (list N);   (* rule-level ws    (honoured by Sequence/OrderedChoice) *)
  n_skipws  : option bool        (* rule-level skipws (idem); None = not set              *)
}.

Record grammar := mkGrammar {
  g_nodes    : list node;        (* node id = index                                       *)
  g_top      : nat;              (* parser_model: Sequence(root rule, EOF)                *)
  g_comments : option nat        (* comments_model                                        *)
}.

Record config := mkConfig {
  c_skipws : bool;               (* Parser.skipws                                         *)
  c_ws     : list N              (* Parser.ws                                             *)
}.

Definition is_match_kind (k : kind) : bool :=
  match k with KEOF | KStr _ _ | KRegex _ => true | _ => false end.

Definition get_node (g : grammar) (i : nat) : option node := nth_error (g_nodes g) i.
