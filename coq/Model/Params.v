(* C27 — model parameters: validation of **kwargs against the metamodel's parameter definitions and
   the way the parameters reach every model created by one load (textx/model_params.py,
   textx/metamodel.py model_from_str / model_from_file / internal_model_from_file,
   textx/model.py parse_tree_to_objgraph (callback, then the ModelLoader providers),
   textx/scoping/__init__.py GlobalModelRepository.load_model*, textx/scoping/providers.py
   ImportURI._load_referenced_models / GlobalRepo._load_referenced_models).
   Executable model only; proofs are in Proofs/ParamsProofs.v. *)
From TxV Require Import Core.Base Gen.SrcParams.

Notation key := (list N) (only parsing).
(* keyword arguments in call order; a value is an opaque identity (the harness maps it to a Python object) *)
Notation params := (list (list N * N)) (only parsing).

Definition keys (kw : params) : list key := map fst kw.

Fixpoint lookup (k : key) (kw : params) : option N :=
  match kw with
  | [] => None
  | (k', v) :: r => if str_eqb k k' then Some v else lookup k r
  end.

(* ---------------------------------------------------------------- ModelParamDefinitions *)

(* add(name, description): refused (TextXError) for a reserved name; otherwise dict assignment *)
Definition defs_add (store : list key) (name : key) : option (list key) :=
  if mem_str name reserved_names then None
  else Some (if mem_str name store then store else store ++ [name]).

(* a sequence of add calls; a refused call raises and leaves the store as it was *)
Definition declare (store : list key) (names : list key) : list key :=
  fold_left (fun st n => match defs_add st n with Some st' => st' | None => st end) names store.

(* TextXMetaModel.__init__: a fresh ModelParamDefinitions plus the built-in definitions *)
Definition builtin_store : list key := declare [] builtin_params.

(* check_params(source, /, **kwargs): the first keyword (call order) that is not declared *)
Fixpoint check_params (declared : list key) (kw : params) : option key :=
  match kw with
  | [] => None
  | (k, _) :: r => if mem_str k declared then check_params declared r else Some k
  end.

(* ---------------------------------------------------------------- the two entry points *)

Inductive entry :=
| EStr                (* model_from_str(text, **kw) *)
| EStrFn (f : nat)    (* model_from_str(text, file_name, **kw) *)
| EFile (f : nat)     (* model_from_file(file_name, **kw) *)
| ERepo.              (* GlobalRepo.load_models_in_model_repo with **kw: every registered pattern, no validation *)

Definition sig_of (e : entry) : list key :=
  match e with EFile _ => sig_from_file | ERepo => sig_repo | _ => sig_from_str end.

(* the arguments the call supplies itself (self, model_str / file_name) *)
Definition pos_bound (e : entry) : list key :=
  match e with
  | EStr => firstn 2 sig_from_str
  | EStrFn _ => firstn 3 sig_from_str
  | EFile _ => firstn 2 sig_from_file
  | ERepo => firstn 1 sig_repo
  end.

(* Python argument binding: a keyword naming an argument that is already supplied is a TypeError
   (None); a keyword naming another explicit argument is bound to it; the rest is **kwargs *)
Definition bind_kwargs (e : entry) (call_kw : params) : option params :=
  if existsb (fun kv => mem_str (fst kv) (pos_bound e)) call_kw then None
  else Some (filter (fun kv => negb (mem_str (fst kv) (sig_of e))) call_kw).

(* ---------------------------------------------------------------- files, imports, models *)

(* One import of a model (an importURI object of an ImportURI provider / a registered pattern of a
   GlobalRepo provider), already resolved against the directory tree by the harness:
   i_plain: the files it denotes (None: nothing found -> OSError ENOENT);
   i_rel/i_rooted: a relative GlobalRepo pattern is joined with the importing model's
   project_root parameter when that is present: value of project_root -> files. *)
Record import := { i_plain : option (list nat); i_rel : bool; i_rooted : list (N * option (list nat)) }.

Fixpoint assoc_root (v : N) (tbl : list (N * option (list nat))) : option (list nat) :=
  match tbl with
  | [] => None
  | (v', r) :: t => if N.eqb v v' then r else assoc_root v t
  end.

Definition resolve (i : import) (p : params) : option (list nat) :=
  if i_rel i then
    match lookup project_root_key p with
    | Some v => assoc_root v (i_rooted i)
    | None => i_plain i
    end
  else i_plain i.

(* f_prim: the root rule yields a Python str/int (no attributes can be set on it);
   f_lang: the registered language whose file pattern matches the file name (metamodel_for_file),
   None: no language is registered for it *)
Record file := { f_imports : list import; f_prim : bool; f_lang : option nat }.

Inductive pkind := PNone | PImportURI | PGlobalRepo.
Record cfg := { c_prov : pkind; c_grepo : bool }.

(* a model object: file name (None for model_from_str without file_name), primitive?, the
   _tx_model_params attribute (None: attribute absent), the operation that created it *)
(* m_mm: the metamodel that loaded it (0 = the metamodel of the entry point, k = registered language k) *)
Record mrec := { m_file : option nat; m_prim : bool; m_params : option params; m_op : nat; m_mm : nat }.

(* heap: every model object created so far, identity = index; allm: ModelRepository.filename_to_model
   of the load (insertion order), restricted to real file names *)
Record lstate := { heap : list mrec; allm : list (nat * nat) }.

Fixpoint repo_find (f : nat) (r : list (nat * nat)) : option nat :=
  match r with
  | [] => None
  | (f', id) :: t => if Nat.eqb f f' then Some id else repo_find f t
  end.

(* all_models[filename] = model *)
Fixpoint repo_set (f id : nat) (r : list (nat * nat)) : list (nat * nat) :=
  match r with
  | [] => [(f, id)]
  | (f', id') :: t => if Nat.eqb f f' then (f, id) :: t else (f', id') :: repo_set f id t
  end.

(* update_model_in_repo_based_on_filename(model): only when the file name is not yet a key
   (models without file name get an invented key that no import can denote: not tracked) *)
Definition repo_register_main (fn : option nat) (id : nat) (r : list (nat * nat)) : list (nat * nat) :=
  match fn with
  | Some f => match repo_find f r with Some _ => r | None => r ++ [(f, id)] end
  | None => r
  end.

Inductive err :=
| EMissing    (* OSError ENOENT / FileNotFoundError *)
| EPrimAttr   (* AttributeError: attribute access on a str/int model *)
| ENoFile     (* TypeError: dirname(None) — ImportURI import in a model without file name *)
| ENoParams   (* AttributeError: the importing model has no _tx_model_params *)
| ENoMM       (* AttributeError: no language registered for the file and no default metamodel *)
| ENotApplicable (* the provider has no load_models_in_model_repo *)
| EFuel.      (* model artefact; excluded by C27_fuel_sufficient *)

Inductive res := Ok (s : lstate) | Fail (e : err).

Section Loops.
  (* load_new for an imported file: internal_model_from_file(filename, pre_ref_resolution_callback=
     repository callback, model_params=<the importing model's parameters>) *)
  Variable rec : nat -> nat -> file -> lstate -> res.      (* metamodel, file name, file, state *)
  Variable w : list file.

  (* metamodel_for_file_or_default_metamodel: the registered language of the file, else the default *)
  Definition mm_for (dflt : option nat) (fr : file) : option nat :=
    match f_lang fr with Some l => Some l | None => dflt end.

  (* GlobalModelRepository.load_model for each file name the pattern denotes; the metamodel found
     for one file is the default for the next one of the same pattern (the loop reassigns it) *)
  Fixpoint load_files (dflt : option nat) (fs : list nat) (s : lstate) : res :=
    match fs with
    | [] => Ok s
    | f :: fs' =>
      match nth_error w f with
      | None => Fail EMissing
      | Some fr =>
        match repo_find f (allm s) with
        | Some _ => load_files (mm_for dflt fr) fs' s                  (* locally / globally cached *)
        | None =>
          match mm_for dflt fr with
          | None => Fail ENoMM                                         (* None.internal_model_from_file *)
          | Some mm =>
            match rec mm f fr s with
            | Ok s' => load_files (Some mm) fs' s'
            | Fail e => Fail e
            end
          end
        end
      end
    end.

  (* _load_referenced_models: one load_models_using_filepattern / load_model_using_search_path per import *)
  Fixpoint load_imps (prov : pkind) (mm : nat) (fn : option nat) (id : nat) (p : params) (l : list import) (s : lstate) : res :=
    match l with
    | [] => Ok s
    | i :: l' =>
      match prov, fn with
      | PImportURI, None => Fail ENoFile
      | _, _ =>
        let s1 := {| heap := heap s; allm := repo_register_main fn id (allm s) |} in
        match resolve i p with
        | None => Fail EMissing
        | Some fs =>
          match load_files (Some mm) fs s1 with
          | Ok s' => load_imps prov mm fn id p l' s'
          | Fail e => Fail e
          end
        end
      end
    end.

  (* load_models_in_model_repo: one load_models_using_filepattern(pattern, model=None) per registered
     pattern: the pattern as it is (no project_root), no default metamodel, no importing model *)
  Fixpoint load_pats (l : list import) (s : lstate) : res :=
    match l with
    | [] => Ok s
    | i :: l' =>
      match i_plain i with
      | None => Fail EMissing
      | Some fs =>
        match load_files None fs s with
        | Ok s' => load_pats l' s'
        | Fail e => Fail e
        end
      end
    end.
End Loops.

Definition is_loader (p : pkind) : bool := match p with PNone => false | _ => true end.

(* get_model_from_str -> parse_tree_to_objgraph for a model that is not cached:
   create the object, run the callback chain (kwargs_callback attaches the parameters when the
   object can carry attributes, then the repository callback registers it under its file name),
   then every ModelLoader provider loads the imports, forwarding model._tx_model_params. *)
Fixpoint load_new (fuel : nat) (w : list file) (prov : pkind) (opn : nat) (mm : nat)
         (fn : option nat) (fr : file) (p : params) (reg_cb : bool) (s : lstate) : res :=
  match fuel with
  | O => Fail EFuel
  | S fuel' =>
    let id := length (heap s) in
    if f_prim fr then
      if reg_cb || is_loader prov then Fail EPrimAttr
      else Ok {| heap := heap s ++ [{| m_file := fn; m_prim := true; m_params := None; m_op := opn; m_mm := mm |}];
                 allm := allm s |}
    else
      let s1 := {| heap := heap s ++ [{| m_file := fn; m_prim := false; m_params := Some p; m_op := opn; m_mm := mm |}];
                   allm := if reg_cb then match fn with Some f => repo_set f id (allm s) | None => allm s end
                           else allm s |} in
      if is_loader prov then
        match nth_error (heap s1) id with
        | Some m =>
          match m_params m with
          | Some p' =>
            load_imps (fun mm' f fr' s' => load_new fuel' w prov opn mm' (Some f) fr' p' true s') w
                      prov mm fn id p' (f_imports fr) s1
          | None => Fail ENoParams
          end
        | None => Fail ENoParams
        end
      else Ok s1
  end.

(* ---------------------------------------------------------------- operations on one metamodel *)

Record op := { o_entry : entry;
               o_content : file;     (* the text given to model_from_str (unused by EFile) *)
               o_is_str : bool;      (* model_str is a str *)
               o_kw : params }.      (* keyword arguments of the call, in order *)

(* persistent state: all model objects ever created, the metamodel's global repository *)
Record gstate := { g_heap : list mrec; g_repo : list (nat * nat) }.

Inductive outcome :=
| OTypeError                 (* keyword collides with a supplied argument *)
| ORejected (k : key)        (* TextXError unknown parameter k *)
| ONotStr                    (* TextXError textX accepts only strings *)
| OErr (e : err)
| OLoaded (result : nat) (first_new : nat) (repo : option (list (nat * nat)))
| ORepo (first_new : nat) (repo : list (nat * nat)).   (* load_models_in_model_repo returns the repository *)

Definition fuel_for (w : list file) : nat := S (S (length w)).

Definition is_str_entry (e : entry) : bool := match e with EFile _ | ERepo => false | _ => true end.

Definition finish_load (c : cfg) (g : gstate) (e : entry) (prim : bool) (r : res) : gstate * outcome :=
  match r with
  | Fail x => (g, OErr x)
  | Ok s' =>
    ({| g_heap := heap s'; g_repo := if c_grepo c then allm s' else g_repo g |},
     OLoaded (length (g_heap g)) (length (g_heap g))
             (if negb prim && (is_loader (c_prov c) || (c_grepo c && match e with EStr => false | _ => true end))
              then Some (allm s') else None))
  end.

Definition run_op (w : list file) (c : cfg) (declared : list key) (opn : nat) (g : gstate) (o : op)
  : gstate * outcome :=
  match bind_kwargs (o_entry o) (o_kw o) with
  | None => (g, OTypeError)
  | Some kw =>
    match (match o_entry o with ERepo => None | _ => check_params declared kw end) with
    | Some k => (g, ORejected k)
    | None =>
      if is_str_entry (o_entry o) && negb (o_is_str o) then (g, ONotStr) else
      let s0 := {| heap := g_heap g; allm := if c_grepo c then g_repo g else [] |} in
      match o_entry o with
      | EStr =>
        finish_load c g EStr (f_prim (o_content o))
                    (load_new (fuel_for w) w (c_prov c) opn 0 None (o_content o) kw false s0)
      | EStrFn f =>
        match (if c_grepo c then repo_find f (g_repo g) else None) with
        | Some id => (g, OLoaded id (length (g_heap g)) (Some (g_repo g)))
        | None =>
          finish_load c g (EStrFn f) (f_prim (o_content o))
                      (load_new (fuel_for w) w (c_prov c) opn 0 (Some f) (o_content o) kw (c_grepo c) s0)
        end
      | EFile f =>
        match (if c_grepo c then repo_find f (g_repo g) else None) with
        | Some id => (g, OLoaded id (length (g_heap g)) (Some (g_repo g)))
        | None =>
          match nth_error w f with
          | None => (g, OErr EMissing)
          | Some fr =>
            finish_load c g (EFile f) (f_prim fr)
                        (load_new (fuel_for w) w (c_prov c) opn 0 (Some f) fr kw (c_grepo c) s0)
          end
        end
      | ERepo =>
        match c_prov c with
        | PGlobalRepo =>
          match load_pats (fun mm f fr s' => load_new (S (length w)) w (c_prov c) opn mm (Some f) fr kw true s') w
                          (f_imports (o_content o)) {| heap := g_heap g; allm := [] |} with
          | Ok s' => ({| g_heap := heap s'; g_repo := g_repo g |}, ORepo (length (g_heap g)) (allm s'))
          | Fail x => (g, OErr x)
          end
        | _ => (g, OErr ENotApplicable)
        end
      end
    end
  end.

Fixpoint run_ops (w : list file) (c : cfg) (declared : list key) (opn : nat) (g : gstate) (ops : list op)
  : list (gstate * outcome) :=
  match ops with
  | [] => []
  | o :: r => let '(g', out) := run_op w c declared opn g o in (g', out) :: run_ops w c declared (S opn) g' r
  end.

Definition g_init : gstate := {| g_heap := []; g_repo := [] |}.

(* ---------------------------------------------------------------- printing (for the correspondence run) *)
From TxV Require Import Core.Show.
Open Scope string_scope.

Definition show_params (p : option params) : string :=
  match p with
  | None => "none"
  | Some kw => "{" ++ sjoin "," (map (fun kv => show_str (fst kv) ++ "=" ++ show_N (snd kv)) kw) ++ "}"
  end.

Definition show_model (h : list mrec) (id : nat) : string :=
  match nth_error h id with
  | None => "?"
  | Some m => (match m_file m with Some f => if m_prim m then "-" else show_nat f | None => "-" end) ++ "/" ++ show_nat (m_op m) ++ "/"
              ++ (if m_prim m then "P" else "") ++ show_params (m_params m) ++ "@" ++ show_nat (m_mm m)
  end.

Definition show_err (e : err) : string :=
  match e with EMissing => "missing" | EPrimAttr => "prim" | ENoFile => "nofile" | ENoParams => "noparams" | ENoMM => "nomm" | ENotApplicable => "na" | EFuel => "FUEL" end.

Definition show_outcome (r : gstate * outcome) : string :=
  let '(g, out) := r in
  match out with
  | OTypeError => "T"
  | ORejected k => "R:" ++ show_str k
  | ONotStr => "S"
  | OErr e => "E:" ++ show_err e
  | OLoaded res n0 repo =>
    "L " ++ show_model (g_heap g) res
    ++ " new[" ++ sjoin " " (map (show_model (g_heap g)) (seq n0 (List.length (g_heap g) - n0))) ++ "]"
    ++ match repo with
       | None => " repo-"
       | Some r => " repo[" ++ sjoin " " (map (fun e => show_nat (fst e) ++ ":" ++ show_model (g_heap g) (snd e)) r) ++ "]"
       end
  | ORepo n0 r =>
    "G new[" ++ sjoin " " (map (show_model (g_heap g)) (seq n0 (List.length (g_heap g) - n0))) ++ "]"
    ++ " repo[" ++ sjoin " " (map (fun e => show_nat (fst e) ++ ":" ++ show_model (g_heap g) (snd e)) r) ++ "]"
  end.

Definition show_run (w : list file) (c : cfg) (adds : list key) (ops : list op) : string :=
  sjoin " ; " (map show_outcome (run_ops w c (declare builtin_store adds) 0 g_init ops)).

(* state after a whole history of operations (operation numbers count from opn) *)
Fixpoint end_state (w : list file) (c : cfg) (declared : list key) (opn : nat) (g : gstate) (ops : list op) : gstate :=
  match ops with
  | [] => g
  | o :: r => end_state w c declared (S opn) (fst (run_op w c declared opn g o)) r
  end.

(* ---------------------------------------------------------------- example data used by the non-vacuity examples of Props/C27.v *)
Definition ex_imp (l : list nat) : import := {| i_plain := Some l; i_rel := false; i_rooted := [] |}.
(* a.m imports b.m and c.m, b.m imports c.m, c.m imports a.m (cycle + diamond) *)
Definition ex_world : list file :=
  [ {| f_imports := [ex_imp [1]; ex_imp [2]]; f_prim := false; f_lang := None |};
    {| f_imports := [ex_imp [2]]; f_prim := false; f_lang := None |};
    {| f_imports := [ex_imp [0]]; f_prim := false; f_lang := None |} ].
Definition ex_cfg : cfg := {| c_prov := PImportURI; c_grepo := true |}.
Definition k_p : list N := [112]%N.
Definition k_debug : list N := [100;101;98;117;103]%N.
Definition ex_op (kw : list (list N * N)) : op :=
  {| o_entry := EFile 0; o_content := {| f_imports := []; f_prim := false; f_lang := None |}; o_is_str := true; o_kw := kw |}.


(* two registered languages: a.m (language 0) imports b.n1 (language 1) which imports c.u (no language:
   loaded by the importing metamodel, i.e. 1) and d.m (language 0 again) *)
Definition ex_world_langs : list file :=
  [ {| f_imports := [ex_imp [1]]; f_prim := false; f_lang := Some 0 |};
    {| f_imports := [ex_imp [2]; ex_imp [3]]; f_prim := false; f_lang := Some 1 |};
    {| f_imports := []; f_prim := false; f_lang := None |};
    {| f_imports := [ex_imp [0]]; f_prim := false; f_lang := Some 0 |} ].
(* the same files as registered GlobalRepo patterns *)
Definition ex_repo_op (kw : list (list N * N)) : op :=
  {| o_entry := ERepo; o_content := {| f_imports := [ex_imp [1; 2]; ex_imp [0]]; f_prim := false; f_lang := None |};
     o_is_str := true; o_kw := kw |}.
