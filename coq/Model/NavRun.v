(* C05 — evaluation harness of the Nav model for the correspondence run (no proofs).
   One case = a dumped object tree + the list of type names asked of get_parent_of_type +
   a list of get_children / get_children_of_type queries; the result is one printable line
   that tools/props/c05.py rebuilds from the implementation's answers. *)
From TxV Require Import Core.Base Core.Show Model.Nav.
Open Scope string_scope.

(* selectors / should_follow predicates that both sides can evaluate *)
Inductive pred :=
| PTrue | PFalse
| PCls (ns : list (list N)) | PNotCls (ns : list (list N))
| PIdMod (m r : N).                 (* id mod m <> r *)

(* [prim] is what the predicate answers on values that are not model objects *)
Definition eval_pred (p : pred) (prim : bool) (o : obj) : bool :=
  match o with
  | Node id c _ =>
      match p with
      | PTrue => true
      | PFalse => false
      | PCls ns => mem_str c ns
      | PNotCls ns => negb (mem_str c ns)
      | PIdMod m r => negb (N.eqb (N.modulo id m) r)
      end
  | _ => prim
  end.

Record query := {
  q_root : option N;                (* object to start from; None: a plain string value *)
  q_sel : pred;
  q_typ : option typ_arg;           (* Some: get_children_of_type *)
  q_sf : pred; q_sfprim : bool;
  q_cf : bool }.

Definition find_node (id : N) (root : obj) : obj :=
  match find (fun o => N.eqb (obj_id o) id) (nodes root) with Some o => o | None => root end.

Definition show_ids (l : list obj) : string := sjoin "," (map (fun o => show_N (obj_id o)) l).

Definition run_query (root : obj) (q : query) : string :=
  let r := match q_root q with Some id => find_node id root | None => Prim 0 [] end in
  let sf := eval_pred (q_sf q) (q_sfprim q) in
  show_ids (match q_typ q with
            | Some t => get_children_of_type t r (q_cf q) sf
            | None => get_children (eval_pred (q_sel q) false) r (q_cf q) sf
            end).

Definition show_pval (p : option pval) : string :=
  match p with None => "-" | Some (PObj id) => show_N id | Some POther => "?" end.
Definition show_gres (g : gres) : string :=
  match g with GObj id => show_N id | GOther => "?" | GFuel => "F" end.
Definition show_pres (p : pres) : string :=
  match p with PFound id => show_N id | PNone => "N" | PFuel => "F" end.

Definition run_case (root : obj) (types : list (list N)) (qs : list query) : string :=
  let h := heap_of root in
  let ns := map obj_id (nodes root) in
  let fuel := S (S (List.length ns)) in
  "P=" ++ sjoin "," (map (fun id => show_pval (match lookup id h with Some ho => hparent ho | None => Some POther end)) ns)
  ++ ";M=" ++ sjoin "," (map (fun id => show_gres (get_model h fuel id)) ns)
  ++ ";T=" ++ sjoin "/" (map (fun t => sjoin "," (map (fun id => show_pres (get_parent_of_type h fuel t id)) ns)) types)
  ++ ";Q=" ++ sjoin "/" (map (run_query root) qs).

(* decidable well-formedness of a dump: identities are unique *)
Fixpoint nodup_N (l : list N) : bool :=
  match l with [] => true | x :: l' => negb (mem_N x l') && nodup_N l' end.
Definition uniq_b (root : obj) : bool := nodup_N (map obj_id (nodes root)).
