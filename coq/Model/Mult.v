(* C02 — executable model of attribute multiplicity inference (textx/lang.py visit_assignment +
   _update_attr_multiplicities), of the assignment part of the model builder (textx/model.py
   process_node, branches optional / plain / oneormore / zeroormore), of attribute initialisation
   (metamodel._init_obj_attrs) and the specification they are compared with.  No proofs here.

   The data-like facts (constants, priority order, operator table, repetition promotion, how an
   ordered choice treats the set of seen assignments) come from Gen/SrcMult.v, regenerated from
   the source on every run by tools/translate/mult_tr.py. *)
From Coq Require Import Permutation.
From TxV Require Import Core.Base Model.MultBase Gen.SrcMult.

(* ---------------------------------------------------------------- rule bodies *)
(* The body of one grammar rule as the first pass of the grammar visitor leaves it: rule
   references are still unresolved (RuleCrossRef) and matches have no sub-expressions, so both
   are leaves without assignments (BTok). *)
Inductive body :=
| BTok                                   (* 'kw' | /re/ | RuleRef *)
| BAsg (a : nat) (op : asgop)            (* a=X  a?=X  a*=X  a+=X  (root expression __asgn_xxx) *)
| BSeq (l : list body)                   (* Sequence *)
| BAlt (l : list body)                   (* OrderedChoice *)
| BOpt (x : body)                        (* Optional *)
| BStar (x : body)                       (* ZeroOrMore *)
| BPlus (x : body)                       (* OneOrMore *)
| BUnord (l : list body).                (* UnorderedGroup (nodes = the operand's nodes) *)

(* ---------------------------------------------------------------- const.py *)
Definition mult_lt (l r : mult) : bool := Nat.ltb (mult_index l src_priority) (mult_index r src_priority).
Definition is_many (m : mult) : bool := mult_mem m src_many_mults.      (* lang.py: mult in [...] *)
Definition is_list (m : mult) : bool := mult_mem m src_list_mults.      (* _init_obj_attrs *)

(* ---------------------------------------------------------------- visit_assignment *)
(* assignments of the rule in textual order (the order in which visit_assignment runs) *)
Fixpoint asgs (b : body) : list (nat * asgop) :=
  match b with
  | BTok => []
  | BAsg a op => [(a, op)]
  | BSeq l | BAlt l | BUnord l => flat_map asgs l
  | BOpt x | BStar x | BPlus x => asgs x
  end.

Definition ops_of (a : nat) (b : body) : list asgop :=
  map snd (filter (fun p => Nat.eqb a (fst p)) (asgs b)).

(* multiplicity of attribute a after all visit_assignment calls (attribute created with the default) *)
Definition base (a : nat) (b : body) : mult :=
  fold_left (fun m op => src_op_base op m) (ops_of a b) src_default_mult.

(* 'Cannot use "?=" operator on multiple assignments': a `?=` on an attribute that already exists *)
Fixpoint bool_reuse (seen : list nat) (l : list (nat * asgop)) : bool :=
  match l with
  | [] => false
  | (a, op) :: r =>
      (existsb (Nat.eqb a) seen && match op with OpBool => true | _ => false end) || bool_reuse (a :: seen) r
  end.

(* ---------------------------------------------------------------- _update_attr_multiplicities *)
(* Projection on one attribute a of the walk: `seen` = "a in oc_branch_set", m = cls_attr.mult
   (one mutable cell threaded through the whole walk), rep = the parameter `mult`.
   inherit / merge describe the OrderedChoice case: does a branch start from a copy of the
   enclosing set (else from the empty set), and are the branch sets merged back afterwards. *)
Section Walk.
  Variables (inherit merge : bool) (a : nat).

  Definition asg_rep (op : asgop) (rep : mult) : mult :=
    match op with
    | OpPlus => src_rep_plus rep        (* __asgn_oneormore is a OneOrMore *)
    | OpStar => src_rep_star rep        (* __asgn_zeroormore is a ZeroOrMore *)
    | OpBool | OpPlain => rep           (* Optional / Sequence *)
    end.

  Fixpoint walk (b : body) (rep : mult) (st : bool * mult) {struct b} : bool * mult :=
    match b with
    | BTok => st
    | BAsg a' op =>
        let rep' := asg_rep op rep in
        if Nat.eqb a a' then
          if is_many rep' then (fst st, if mult_lt (snd st) rep' then rep' else snd st)
          else if fst st then (true, src_dup_mult)
          else (true, snd st)
        else st
    | BSeq l | BUnord l => fold_left (fun s x => walk x rep s) l st
    | BAlt l =>
        let r := fold_left (fun s x => let o := walk x rep ((if inherit then fst st else false), snd s) in
                                       (fst s || fst o, snd o)) l st in
        ((if merge then fst r else fst st), snd r)
    | BOpt x => walk x rep st
    | BStar x => walk x (src_rep_star rep) st
    | BPlus x => walk x (src_rep_plus rep) st
    end.

  Definition infer_with (b : body) : mult := snd (walk b src_walk_init (false, base a b)).
End Walk.

(* the inference of the current source *)
Definition infer (b : body) (a : nat) : mult := infer_with src_branch_inherits src_branch_merged a b.
(* the inference before the repair (fresh set per branch, nothing merged back) *)
Definition infer_prefix (b : body) (a : nat) : mult := infer_with false false a b.

(* "Can't use bool assignment inside repetition": a `?=` reached with a many-valued `mult` *)
Fixpoint bool_in_rep (b : body) (rep : mult) : bool :=
  match b with
  | BTok => false
  | BAsg _ op => match op with OpBool => is_many rep | _ => false end
  | BSeq l | BAlt l | BUnord l => existsb (fun x => bool_in_rep x rep) l
  | BOpt x => bool_in_rep x rep
  | BStar x => bool_in_rep x (src_rep_star rep)
  | BPlus x => bool_in_rep x (src_rep_plus rep)
  end.

Definition attrs_of (b : body) : list nat := map fst (asgs b).
Definition is_bool_attr (a : nat) (b : body) : bool :=
  existsb (fun op => match op with OpBool => true | _ => false end) (ops_of a b).

(* visit_textx_rule post-check (when present): a `?=` attribute whose multiplicity ended up in the rejected list *)
Definition bool_many (b : body) : bool :=
  existsb (fun a => is_bool_attr a b && mult_mem (infer b a) src_bool_rejected_mults) (attrs_of b).

(* grammar-time outcome for a rule body: 0 = accepted, 1 = `?=` reuse, 2 = `?=` in repetition, 3 = many-valued `?=` attribute *)
Definition grammar_error (b : body) : nat :=
  if bool_reuse [] (asgs b) then 1
  else if bool_in_rep b src_walk_init then 2
  else if bool_many b then 3
  else 0.
Definition grammar_ok (b : body) : bool := Nat.eqb (grammar_error b) 0.

(* ---------------------------------------------------------------- specification *)
Definition cap2 (n : nat) : nat := Nat.min 2 n.

(* how many values one object can collect for a: 0, 1 or 2 = "many" *)
Fixpoint maxcount (a : nat) (b : body) : nat :=
  match b with
  | BTok => 0
  | BAsg a' op => if Nat.eqb a a' then match op with OpPlain | OpBool => 1 | OpStar | OpPlus => 2 end else 0
  | BSeq l | BUnord l => cap2 (list_sum (map (maxcount a) l))
  | BAlt l => list_max (map (maxcount a) l)
  | BOpt x => maxcount a x
  | BStar x | BPlus x => match maxcount a x with 0 => 0 | _ => 2 end
  end.

(* every ordered choice has at least one alternative (always so for a parsed grammar) *)
Fixpoint alts_nonempty (b : body) : bool :=
  match b with
  | BTok | BAsg _ _ => true
  | BSeq l | BUnord l => forallb alts_nonempty l
  | BAlt l => match l with [] => false | _ => true end && forallb alts_nonempty l
  | BOpt x | BStar x | BPlus x => alts_nonempty x
  end.

(* ---------------------------------------------------------------- assignment events and the builder *)
(* scalar Python values that matter here *)
Inductive sval := SNone | SBool (v : bool) | SInt (z : Z) | SStr (s : list N) | SObj (id : nat).
Definition truthy (v : sval) : bool :=
  match v with
  | SNone => false
  | SBool v => v
  | SInt z => negb (Z.eqb z 0)
  | SStr s => match s with [] => false | _ => true end
  | SObj _ => true
  end.

(* what an attribute holds *)
Inductive aval := AScalar (v : sval) | AList (l : list sval).

(* one matched assignment node of the parse tree with the converted values of its children
   (`?=` carries none; `=` exactly one; `*=`/`+=` the non-separator children in order) *)
Record ev := Ev { ev_attr : nat; ev_op : asgop; ev_vals : list sval }.

(* A child of an assignment node in the parse tree: was it produced by the repetition's separator expression,
   is its rule name "sep" (always so for separator nodes; also for a value matched by a grammar rule called `sep`),
   and what process_node returns for it (for a separator terminal: its text). *)
Record child := Child { c_sep : bool; c_named_sep : bool; c_val : sval }.

(* an assignment node: attribute, operator, does the repetition carry a separator, the children *)
Record anode := ANode { n_attr : nat; n_op : asgop; n_has_sep : bool; n_kids : list child }.

(* the list handler's loop `for n in node: if <not a separator>: ... append(process_node(n))` *)
Definition kept (mode : sepmode) (has_sep : bool) (idx : nat) (c : child) : bool :=
  match mode with
  | SepByNode => negb (has_sep && c_sep c)            (* sep_rule is None or n.rule is not sep_rule *)
  | SepByName => negb (c_named_sep c)                  (* n.rule_name != "sep" *)
  | SepByPosition => negb (has_sep && Nat.odd idx)     (* not (has_sep and idx % 2) *)
  end.

Fixpoint child_values_from (mode : sepmode) (has_sep : bool) (idx : nat) (cs : list child) : list sval :=
  match cs with
  | [] => []
  | c :: r => (if kept mode has_sep idx c then [c_val c] else []) ++ child_values_from mode has_sep (S idx) r
  end.
Definition child_values (mode : sepmode) (has_sep : bool) (cs : list child) : list sval :=
  child_values_from mode has_sep 0 cs.

(* the values the elements of the repetition matched, in order *)
Definition elem_values (cs : list child) : list sval := map c_val (filter (fun c => negb (c_sep c)) cs).

(* the event the builder sees for a node: `=` converts node[0], `?=` nothing, `*=`/`+=` the kept children *)
Definition node_ev (mode : sepmode) (n : anode) : ev :=
  Ev (n_attr n) (n_op n)
     match n_op n with
     | OpPlain => match n_kids n with c :: _ => [c_val c] | [] => [] end
     | OpBool => []
     | OpStar | OpPlus => child_values mode (n_has_sep n) (n_kids n)
     end.

(* a node as the parser builds it: separator children only below a repetition with a separator, none below `=`/`?=` *)
Definition node_wf (n : anode) : bool :=
  match n_op n with
  | OpStar | OpPlus => n_has_sep n || forallb (fun c => negb (c_sep c)) (n_kids n)
  | OpPlain | OpBool => forallb (fun c => negb (c_sep c)) (n_kids n)
  end.

(* the values matched for a by a sequence of nodes, in input order *)
Definition node_values (a : nat) (ns : list anode) : list sval :=
  flat_map (fun n => if Nat.eqb a (n_attr n) then
                       match n_op n with
                       | OpBool => [SBool true]
                       | OpPlain => match n_kids n with c :: _ => [c_val c] | [] => [] end
                       | OpStar | OpPlus => elem_values (n_kids n)
                       end
                     else []) ns.

Inductive outcome := Ok (v : aval) | MultipleAssignments | Crash.

(* model.py process_node, assignment branch, projected on the attribute being assigned *)
Definition assign (cur : aval) (e : ev) : outcome :=
  match ev_op e with
  | OpBool => Ok (AScalar (SBool true))
  | OpPlain =>
      match ev_vals e with
      | [v] =>
          match cur with
          | AScalar c => if truthy c then MultipleAssignments else Ok (AScalar v)
          | AList l => Ok (AList (l ++ [v]))
          end
      | _ => Crash
      end
  | OpStar | OpPlus =>
      match ev_vals e with
      | [] => Ok cur
      | vs =>
          match cur with
          | AScalar SNone => Ok (AList vs)
          | AScalar _ => Crash                      (* .append on a non-list *)
          | AList l => Ok (AList (l ++ vs))
          end
      end
  end.

Fixpoint build (a : nat) (cur : aval) (t : list ev) : outcome :=
  match t with
  | [] => Ok cur
  | e :: r =>
      if Nat.eqb a (ev_attr e) then
        match assign cur e with
        | Ok v => build a v r
        | o => o
        end
      else build a cur r
  end.

(* _init_obj_attrs: a list for many-valued attributes, otherwise the default d (0, '', False, 0.0 or None) *)
Definition init_val (m : mult) (d : sval) : aval := if is_list m then AList [] else AScalar d.

(* the values matched for a, in input order *)
Definition ev_values (e : ev) : list sval :=
  match ev_op e with OpBool => [SBool true] | _ => ev_vals e end.
Definition values_of (a : nat) (t : list ev) : list sval :=
  flat_map (fun e => if Nat.eqb a (ev_attr e) then ev_values e else []) t.

(* weight of a trace for a: `=`/`?=` count one, `*=`/`+=` count as many *)
Definition ev_weight (a : nat) (e : ev) : nat :=
  if Nat.eqb a (ev_attr e) then match ev_op e with OpPlain | OpBool => 1 | OpStar | OpPlus => 2 end else 0.
Definition weight (a : nat) (t : list ev) : nat := list_sum (map (ev_weight a) t).

(* well-formed event for a body assignment *)
Definition ev_ok (e : ev) : Prop :=
  match ev_op e with
  | OpPlain => exists v, ev_vals e = [v]
  | OpBool => ev_vals e = []
  | OpStar | OpPlus => True
  end.

(* The traces of assignment events a body can produce for one object (grammar structure only:
   any alternative, any number of iterations, unordered-group elements in any order; an assignment may stay silent). *)
Fixpoint emits (b : body) (t : list ev) {struct b} : Prop :=
  match b with
  | BTok => t = []
  | BAsg a op =>
      (exists e, t = [e] /\ ev_attr e = a /\ ev_op e = op /\ ev_ok e)
      \/ t = []      (* no node: the right-hand side matched nothing / the empty string (Arpeggio drops falsy results) *)
  | BSeq l =>
      (fix go (l : list body) (t : list ev) : Prop :=
         match l with
         | [] => t = []
         | x :: r => exists t1 t2, t = t1 ++ t2 /\ emits x t1 /\ go r t2
         end) l t
  | BAlt l =>
      (fix go (l : list body) : Prop :=
         match l with
         | [] => False
         | x :: r => emits x t \/ go r
         end) l
  | BOpt x => t = [] \/ emits x t
  | BStar x => exists ts, t = concat ts /\ Forall (emits x) ts
  | BPlus x => exists ts, ts <> [] /\ t = concat ts /\ Forall (emits x) ts
  | BUnord l =>
      exists ts ts', Permutation.Permutation ts ts' /\ t = concat ts' /\
      (fix go (l : list body) (ts : list (list ev)) : Prop :=
         match l, ts with
         | [], [] => True
         | x :: r, t1 :: tr => emits x t1 /\ go r tr
         | _, _ => False
         end) l ts
  end.
