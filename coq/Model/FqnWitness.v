(* Concrete object tables (dumped from real textX models of grammar A in tools/props/c10.py) used by the
   refutation of the pre-repair attribute filter and by the non-vacuity examples of Props/C10.v. *)
From TxV Require Import Core.Base Model.FqnDefs Gen.SrcFqn Model.Fqn Model.FqnExt.

Definition A (n : list N) (d c k : bool) (v : aval) : attr :=
  {| a_name := n; a_decl := d; a_cont := c; a_call := k; a_val := v |}.
Definition O (c : nat) (n : option (list N)) (l : list attr) : obj := {| o_cls := c; o_name := n; o_attrs := l |}.

Definition s_name : list N := [110;97;109;101]%N.
Definition s_elems : list N := [101;108;101;109;115]%N.
Definition s_refs : list N := [114;101;102;115]%N.
Definition s_owner : list N := [111;119;110;101;114]%N.
Definition s_main : list N := [109;97;105;110]%N.
Definition s_base : list N := [98;97;115;101]%N.
Definition s_uses : list N := [117;115;101;115]%N.
Definition s_members : list N := [109;101;109;98;101;114;115]%N.
Definition s_target : list N := [116;97;114;103;101;116]%N.
Definition s_pos : list N := [95;116;120;95;112;111;115;105;116;105;111;110]%N.
Definition s_pos_end : list N := [95;116;120;95;112;111;115;105;116;105;111;110;95;101;110;100]%N.

(* class ids: 0 Model, 1 Package, 2 Class, 3 Alias, 4 Use, 5 Elem (abstract), 6 Ref (abstract) *)
Definition wconf (c T : nat) : bool :=
  (Nat.eqb c T || (Nat.eqb T 5 && (Nat.eqb c 1 || Nat.eqb c 2)) || (Nat.eqb T 6 && (Nat.eqb c 3 || Nat.eqb c 4)))%bool.

Definition w_model : obj :=
  O 0 None [A s_elems true true false (VMany [1]); A s_refs true true false (VMany []);
            A s_pos false false false VPrim; A s_pos_end false false false VPrim].
Definition w_package (refs : list nat) : obj :=
  O 1 (Some [112]%N)
    [A s_name true true false VPrim; A s_owner true false false (VOne None); A s_main true true false (VOne None);
     A s_elems true true false (VMany [2;3]); A s_refs true true false (VMany refs);
     A s_pos false false false VPrim; A s_pos_end false false false VPrim; A parent_name false false false (VOne (Some 0))].
Definition w_class (nm : list N) (base : option nat) : obj :=
  O 2 (Some nm)
    [A s_name true true false VPrim; A s_base true false false (VOne base); A s_uses true false false (VMany []);
     A s_members true true false (VMany []);
     A s_pos false false false VPrim; A s_pos_end false false false VPrim; A parent_name false false false (VOne (Some 1))].
Definition w_use (target : option nat) : obj :=
  O 4 None [A s_target true false false (VOne target);
            A s_pos false false false VPrim; A s_pos_end false false false VPrim; A parent_name false false false (VOne (Some 1))].

(* `package p { class c; class d extends c.p.c; }` while d.base is being resolved *)
Definition w1 : list obj := [w_model; w_package []; w_class [99]%N None; w_class [100]%N None].
Definition t_cpc : list N := [99;46;112;46;99]%N.          (* "c.p.c" *)

(* `package p { class c; class d extends c; use p.d.c; }` while the `use` is being resolved (d.base is resolved) *)
Definition w2 : list obj := [w_model; w_package [4]; w_class [99]%N None; w_class [100]%N (Some 2); w_use None].
Definition t_pdc : list N := [112;46;100;46;99]%N.         (* "p.d.c" *)
(* the same model before d.base is resolved *)
Definition w2' : list obj := [w_model; w_package [4]; w_class [99]%N None; w_class [100]%N None; w_use None].

(* ---- several models in one table: w2 followed by a library model `package p { class e; }` (root 5) *)
Definition w_obj (cls : nat) (nm : option (list N)) (kids : list nat) (par : option nat) : obj :=
  O cls nm ([A s_name true true false VPrim; A s_elems true true false (VMany kids); A s_pos false false false VPrim]
            ++ match par with Some q => [A parent_name false false false (VOne (Some q))] | None => [] end).
Definition w3 : list obj :=
  w2 ++ [w_obj 0 None [6] None; w_obj 1 (Some [112]%N) [7] (Some 5); w_obj 2 (Some [101]%N) [] (Some 6)].
Definition t_pe : list N := [112;46;101]%N.               (* "p.e" *)
Definition t_cpe : list N := [99;46;112;46;101]%N.        (* "c.p.e" *)
(* a redirection callback: class c (object 2) stands for the library model *)
Definition w_redir (p : nat) : Model.FqnExt.rres :=
  if Nat.eqb p 2 then Model.FqnExt.RList [5] else Model.FqnExt.RList [].

(* ---- a plain Python object (class id 7, no declared attributes) hung into package p as `notes` *)
Definition s_notes : list N := [110;111;116;101;115]%N.
Definition s_kids : list N := [107;105;100;115]%N.
Definition s_fn : list N := [102;110]%N.
Definition w_py : list obj :=
  [w_model;
   O 1 (Some [112]%N) [A s_name true true false VPrim; A s_elems true true false (VMany []);
                       A s_pos false false false VPrim; A parent_name false false false (VOne (Some 0));
                       A s_notes false false false (VMany [2])];
   O 7 (Some [110]%N) [A s_name false false false VPrim; A s_kids false false false (VMany [3]);
                       A s_fn false false true VPrim; A parent_name false false false (VOne (Some 1))];
   O 7 (Some [107]%N) [A s_name false false false VPrim; A s_kids false false false (VMany [])]].
Definition t_pnk : list N := [112;46;110;46;107]%N.       (* "p.n.k" *)
