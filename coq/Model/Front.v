(* C23 — the grammar front-end of textx/lang.py as an outcome-typed function.

   Input: what Arpeggio hands to TextXVisitor (a parse tree of the textX grammar language, here
   as an abstract syntax), or the fact that parsing failed.  Every operation of the visitor, of
   second_textx_model and of the pieces of metamodel.py they call that can raise is explicit;
   Python-level failures that the code does not turn into a TextXError are `Crash k`.
   External behaviour is passed in as oracles (regex compilation, escape decoding, the language
   registry).  The facts that decide between "TextXError" and "Crash" come from the record
   `cfg`, generated from the current source (Gen/SrcFront.v). *)
From TxV Require Import Core.Base Model.FrontDefs.
From TxV Require Model.Kinds.   (* C03's model of the rule-kind fixpoint; not imported: its names stay qualified *)

(* ---------------------------------------------------------------- abstract syntax *)
Inductive smatch := SStr (s : list N) | SRe (s : list N).      (* text between the quotes / slashes *)
Inductive moditem := MSep (m : smatch) | MEol.
Inductive refx :=
| RRule (name : list N)
| RObj (cls : list N) (rule : option (list N)) (rrel : bool).
Inductive arhs := ASimple (m : smatch) | ARef (r : refx).
Inductive aop := OpEq | OpStar | OpPlus | OpOpt.                (* =  *=  +=  ?= *)
Inductive repop := RStar | ROpt | RPlus | RHash.

Inductive expr :=
| EAsg (attr : list N) (op : aop) (rhs : arhs) (mods : option (list moditem))
| EMatch (pred : bool) (m : smatch)
| ERef (pred : bool) (name : list N)
| EGroup (pred : bool) (c : list (list rexpr))
with rexpr :=
| RX (e : expr) (rep : option (repop * option (list moditem))) (sup : bool).

Notation choice := (list (list rexpr)) (only parsing).

Inductive stmt := SImport | SReference (lang : list N) (alias : option (list N)).

Record rule := { r_name : list N; r_params : option (list (list N * option (list N))); r_body : choice }.

Record tree := { t_stmts : list stmt; t_rules : list rule }.

(* what parser.parse(language_def) did: raised e (NoMatch for a text that is not a grammar), or returned a tree *)
Inductive ginput := GParseRaises (e : exc) | GTree (t : tree).

(* ---------------------------------------------------------------- oracles *)
(* Each oracle answers with the TYPE of the exception raised (None / a value: no exception). *)
Inductive ext_res :=
| ExtLangRaises (e : exc)            (* metamodel_for_language(lang) raises e (TextXRegistrationError when not registered) *)
| ExtMissing | ExtFound              (* a TextXMetaModel: its __getitem__ raises KeyError / returns the class *)
| ExtBuiltin (found : bool).         (* the built-in TextXMetaMetaModel; is the name in its meta-model *)
Record oracles := {
  o_regex : list N -> option exc;                 (* RegExMatch(s).compile() *)
  o_decode : list N -> option exc;                (* the `try` body of visit_str_match on this text *)
  o_ext : list N -> list N -> ext_res             (* language name, class name *)
}.

(* What the theorems assume about the world outside textX (the harness checks it on every case):
   re.compile raises only subclasses of Exception; the slicing + codecs.decode(.., "unicode-escape") of
   visit_str_match raise only IndexError / UnicodeDecodeError; the registry raises only TextXErrors. *)
Definition oracle_wf (o : oracles) : Prop :=
  (forall s e, o_regex o s = Some e -> In n_Exception (x_mro e)) /\
  (forall s e, o_decode o s = Some e -> In n_UnicodeDecodeError (x_mro e) \/ In n_IndexError (x_mro e)) /\
  (forall l n e, o_ext o l n = ExtLangRaises e -> In n_TextXError (x_mro e)).

(* the TextX class of a TextXError subclass, by name *)
Definition class_of_exc (e : exc) : txclass :=
  if mem_str n_TextXSyntaxError (x_mro e) then CSyntax
  else if mem_str n_TextXSemanticError (x_mro e) then CSemantic
  else if mem_str n_TextXRegistrationError (x_mro e) then CRegistration
  else CPlain.

(* an exception that propagates out of metamodel_from_str *)
Definition propagate (e : exc) (w : why) : outcome :=
  if mem_str n_TextXError (x_mro e) then TxErr (class_of_exc e) w else Crash (x_name e).

(* ---------------------------------------------------------------- names *)
Definition s_skipws : list N := [115;107;105;112;119;115]%N.
Definition s_ws : list N := [119;115]%N.
Definition s_split : list N := [115;112;108;105;116]%N.
Definition s_no : list N := [110;111]%N.
Definition s_ID : list N := [73;68]%N.
Definition s_STRING : list N := [83;84;82;73;78;71]%N.
Definition s_BOOL : list N := [66;79;79;76]%N.
Definition s_OBJECT : list N := [79;66;74;69;67;84]%N.
Definition s_base : list N := [95;95;98;97;115;101;95;95]%N.          (* __base__ *)
Definition c_dot : N := 46%N.

(* ---------------------------------------------------------------- first pass: the visitor *)
(* The visitor works bottom-up, left to right and stops at the first exception.  `events`
   lists, in that order, the visit methods that can raise, each with what it looks at. *)
Inductive event :=
| EvRuleName (n : list N)                              (* visit_rule_name: a fresh class becomes current *)
| EvParams (ps : list (list N * option (list N)))      (* visit_rule_params *)
| EvStr (s : list N)                                   (* visit_str_match *)
| EvRe (s : list N)                                    (* visit_re_match *)
| EvObjRef (cls : list N)                              (* visit_obj_ref *)
| EvRepeat (op : repop) (has_mods on_ref : bool)       (* visit_repeatable_expr with an operator *)
| EvAssign (attr : list N) (op : aop) (has_mods : bool)(* visit_assignment *)
| EvRule (boolrep boolmany : bool).                    (* visit_textx_rule: _update_attr_multiplicities, `?=` with many *)

Definition ev_smatch (m : smatch) : list event :=
  match m with SStr s => [EvStr s] | SRe s => [EvRe s] end.

Definition ev_mods (ms : option (list moditem)) : list event :=
  match ms with
  | None => []
  | Some l => flat_map (fun i => match i with MSep m => ev_smatch m | MEol => [] end) l
  end.

Definition ev_rhs (r : arhs) : list event :=
  match r with
  | ASimple m => ev_smatch m
  | ARef (RRule _) => []
  | ARef (RObj cls _ _) => [EvObjRef cls]
  end.

(* visit_expression / bracketed_choice / visit_choice / visit_sequence / visit_repeatable_expr:
   when does the value handed upwards stay a bare RuleCrossRef? *)
Fixpoint ref_of_expr (e : expr) : option (list N) :=
  match e with
  | ERef false n => Some n
  | EGroup false [[RX e' None _]] => ref_of_expr e'
  | _ => None
  end.

Definition ref_of_choice (c : choice) : option (list N) :=
  match c with
  | [[RX e None _]] => ref_of_expr e
  | _ => None
  end.

Definition is_some_b {A} (o : option A) : bool := match o with Some _ => true | None => false end.

Fixpoint ev_expr (e : expr) : list event :=
  match e with
  | EAsg a op rhs ms => ev_rhs rhs ++ ev_mods ms ++ [EvAssign a op (is_some_b ms)]
  | EMatch _ m => ev_smatch m
  | ERef _ _ => []
  | EGroup _ c => flat_map (flat_map ev_rexpr) c
  end
with ev_rexpr (r : rexpr) : list event :=
  match r with
  | RX e None _ => ev_expr e
  | RX e (Some (op, ms)) _ => ev_expr e ++ ev_mods ms ++ [EvRepeat op (is_some_b ms) (is_some_b (ref_of_expr e))]
  end.

(* The parser-model shape the visitor builds for a rule body (what _update_attr_multiplicities walks):
   visit_choice / visit_sequence collapse single children, predicates wrap, `#` builds
   UnorderedGroup(nodes=expr.nodes) and so replaces the expression by its sub-nodes. *)
Inductive pkind := KSeq | KChoice | KOpt | KStar | KPlus | KUGroup | KPred.
Inductive pnode :=
| PRef                                    (* RuleCrossRef *)
| PMatch                                  (* StrMatch / RegExMatch: nodes = [] *)
| PAsgn (attr : list N) (op : aop) (rhs_is_ref : bool)   (* __asgn_* rule, nodes = [rhs], root *)
| PComp (k : pkind) (nodes : list pnode).

Definition wrap_pred (p : bool) (x : pnode) : pnode := if p then PComp KPred [x] else x.
Definition collapse (k : pkind) (l : list pnode) : pnode := match l with [x] => x | _ => PComp k l end.
Definition nodes_of (x : pnode) : list pnode :=
  match x with
  | PRef => [PRef]                        (* the repaired `#` branch; the pinned code raised before *)
  | PMatch => []
  | PAsgn _ _ r => [if r then PRef else PMatch]
  | PComp _ ns => ns
  end.

Fixpoint build_expr (e : expr) : pnode :=
  match e with
  | EAsg a op rhs _ => PAsgn a op (match rhs with ARef _ => true | ASimple _ => false end)
  | EMatch p _ => wrap_pred p PMatch
  | ERef p _ => wrap_pred p PRef
  | EGroup p c => wrap_pred p (collapse KChoice (map (fun s => collapse KSeq (map build_rexpr s)) c))
  end
with build_rexpr (r : rexpr) : pnode :=
  match r with
  | RX e None _ => build_expr e
  | RX e (Some (ROpt, _)) _ => PComp KOpt [build_expr e]
  | RX e (Some (RStar, _)) _ => PComp KStar [build_expr e]
  | RX e (Some (RPlus, _)) _ => PComp KPlus [build_expr e]
  | RX e (Some (RHash, _)) _ => PComp KUGroup (nodes_of (build_expr e))
  end.

Definition build_body (c : choice) : pnode := collapse KChoice (map (fun s => collapse KSeq (map build_rexpr s)) c).

(* state of the walk: oc_branch_set, the attributes whose multiplicity became many, and whether the
   "bool assignment inside repetition" error was raised *)
Record wst := { w_branch : list (list N); w_many : list (list N); w_boolrep : bool }.

Definition add_str (a : list N) (l : list (list N)) : list (list N) := if mem_str a l then l else a :: l.
Definition union_str (l1 l2 : list (list N)) : list (list N) := fold_left (fun acc a => add_str a acc) l1 l2.

Fixpoint walk (many : bool) (n : pnode) (st : wst) : wst :=
  match n with
  | PRef => st
  | PMatch => st
  | PAsgn a op _ =>
      let many' := many || match op with OpPlus | OpStar => true | _ => false end in
      if many' then {| w_branch := w_branch st; w_many := add_str a (w_many st);
                       w_boolrep := w_boolrep st || match op with OpOpt => true | _ => false end |}
      else if mem_str a (w_branch st) then {| w_branch := w_branch st; w_many := add_str a (w_many st); w_boolrep := w_boolrep st |}
      else {| w_branch := a :: w_branch st; w_many := w_many st; w_boolrep := w_boolrep st |}
  | PComp KChoice ns =>
      (* every branch starts from the enclosing set; afterwards the enclosing set is the union *)
      let base := w_branch st in
      (fix branches (l : list pnode) (st : wst) (acc : list (list N)) : wst :=
         match l with
         | [] => {| w_branch := acc; w_many := w_many st; w_boolrep := w_boolrep st |}
         | x :: l' =>
             let st1 := walk many x {| w_branch := base; w_many := w_many st; w_boolrep := w_boolrep st |} in
             branches l' st1 (union_str (w_branch st1) acc)
         end) ns st base
  | PComp k ns =>
      let many' := many || match k with KStar | KPlus => true | _ => false end in
      (fix children (l : list pnode) (st : wst) : wst :=
         match l with
         | [] => st
         | x :: l' => children l' (walk many' x st)
         end) ns st
  end.

Definition walk_body (c : choice) : wst := walk false (build_body c) {| w_branch := []; w_many := []; w_boolrep := false |}.

(* attributes of the class in creation order with the operator of their first assignment, and the attributes
   some assignment gave multiplicity many directly (visit_assignment: += and *=) *)
Fixpoint asg_ops_expr (e : expr) : list (list N * aop) :=
  match e with
  | EAsg a op _ _ => [(a, op)]
  | EMatch _ _ => []
  | ERef _ _ => []
  | EGroup _ c => flat_map (flat_map asg_ops_rexpr) c
  end
with asg_ops_rexpr (r : rexpr) : list (list N * aop) :=
  match r with RX e _ _ => asg_ops_expr e end.

Fixpoint first_op (a : list N) (l : list (list N * aop)) : option aop :=
  match l with
  | [] => None
  | (a', op) :: l' => if str_eqb a a' then Some op else first_op a l'
  end.

Definition boolmany_body (c : choice) : bool :=
  let ops := flat_map (flat_map asg_ops_rexpr) c in
  let many := w_many (walk_body c)
              ++ map fst (filter (fun p => match snd p with OpPlus | OpStar => true | _ => false end) ops) in
  existsb (fun a => match first_op a ops with Some OpOpt => true | _ => false end) many.

Definition ev_rule (r : rule) : list event :=
  [EvRuleName (r_name r)]
  ++ match r_params r with Some ps => [EvParams ps] | None => [] end
  ++ flat_map (flat_map ev_rexpr) (r_body r)
  ++ [EvRule (w_boolrep (walk_body (r_body r))) (boolmany_body (r_body r))].

Definition events (t : tree) : list event := flat_map ev_rule (t_rules t).

(* the statements come before the rules: visit_import_stm -> metamodel._new_import asserts that the
   grammar comes from a file; visit_reference_stm only fills referenced_languages *)
Definition visit_stmts (ss : list stmt) : outcome :=
  if existsb (fun s => match s with SImport => true | _ => false end) ss then Crash n_AssertionError else Ok.

(* ---- the individual visit methods *)
Inductive pvalue := PTrue | PFalse | PStr (s : list N).

(* visit_rule_param *)
Definition norm_param (p : list N * option (list N)) : list N * pvalue :=
  match p with
  | (n, Some v) => (n, PStr v)
  | (n, None) => if is_prefix s_no n then (skipn 2 n, PFalse) else (n, PTrue)
  end.

Definition is_str (v : pvalue) : bool := match v with PStr _ => true | _ => false end.

(* one iteration of the loop of visit_rule_params *)
Definition check_param (c : cfg) (p : list N * pvalue) : outcome :=
  let '(n, v) := p in
  if negb (mem_str n (c_params c)) then TxErr (c_param_cls c) WParam
  else if str_eqb n s_split && negb (is_str v) then TxErr (c_split_cls c) WSplit
  else if str_eqb n s_split && match v with PStr [] => true | _ => false end then TxErr (c_split_cls c) WSplit
  else if str_eqb n s_ws && negb (is_str v) then
    match c_ws_guard c with
    | Some cl => TxErr cl WWsParam
    | None => Crash n_TypeError                    (* "\\" in True *)
    end
  else Ok.

Fixpoint check_params (c : cfg) (ps : list (list N * option (list N))) : outcome :=
  match ps with
  | [] => Ok
  | p :: ps' => match check_param c (norm_param p) with Ok => check_params c ps' | o => o end
  end.

Definition out_of (d : dres) : outcome := match d with DSwallowed => Ok | DOut o => o end.

Definition visit_re_match (c : cfg) (o : oracles) (s : list N) : outcome :=
  match o_regex o s with
  | None => Ok
  | Some e => out_of (dispatch (c_re_clauses c) e WRegex)
  end.

Definition visit_str_match (c : cfg) (o : oracles) (s : list N) : outcome :=
  match o_decode o s with
  | None => Ok
  | Some e => out_of (dispatch (c_str_clauses c) e WEscape)      (* except IndexError: to_match = "" *)
  end.

Definition visit_obj_ref (c : cfg) (cls : list N) : outcome :=
  (* the test is against BASE_TYPE_NAMES = the __base__ classes without OBJECT *)
  if mem_str cls (c_base_names c) && negb (str_eqb cls s_OBJECT) then TxErr CSemantic WPrimRef else Ok.

Definition visit_repeatable_expr (c : cfg) (op : repop) (has_mods on_ref : bool) : outcome :=
  match op with
  | RHash => if on_ref && negb (c_ugroup_guard c) then Crash n_AttributeError else Ok
  | ROpt => if has_mods then TxErr CSyntax WOptMods else Ok
  | _ => Ok
  end.

Definition visit_assignment (attrs : list (list N)) (a : list N) (op : aop) (has_mods : bool) : outcome :=
  if mem_str a attrs && match op with OpOpt => true | _ => false end then TxErr CSemantic WMultiBool
  else if has_mods && match op with OpOpt | OpEq => true | _ => false end then TxErr CSyntax WAsgMods
  else Ok.

(* state of the first pass: the attribute names of the class under construction and
   metamodel._used_rule_names_for_user_classes *)
Record fst_state := { s_attrs : list (list N); s_used : list (list N) }.

(* visit_rule_name with user classes given as `classes=[...]` (their names are `user`) *)
Definition visit_rule_name (c : cfg) (user : list (list N)) (st : fst_state) (n : list N) : fst_state * outcome :=
  if mem_str n user then
    if mem_str n (s_used st) then (st, TxErr (c_user_redef_cls c) WUserRedef)
    else ({| s_attrs := []; s_used := n :: s_used st |}, Ok)
  else ({| s_attrs := []; s_used := s_used st |}, Ok).

Definition step (c : cfg) (o : oracles) (user : list (list N)) (st : fst_state) (e : event) : fst_state * outcome :=
  let attrs := s_attrs st in
  match e with
  | EvRuleName n => visit_rule_name c user st n
  | EvParams ps => (st, check_params c ps)
  | EvStr s => (st, visit_str_match c o s)
  | EvRe s => (st, visit_re_match c o s)
  | EvObjRef cls => (st, visit_obj_ref c cls)
  | EvRepeat op hm onr => (st, visit_repeatable_expr c op hm onr)
  | EvAssign a op hm => ({| s_attrs := if mem_str a attrs then attrs else attrs ++ [a]; s_used := s_used st |},
                         visit_assignment attrs a op hm)
  | EvRule br bm => (st, if br then TxErr CSemantic WBoolRep
                         else if bm then match c_boolmany_check c with Some cl => TxErr cl WBoolMany | None => Ok end
                         else Ok)
  end.

Fixpoint run_events (c : cfg) (o : oracles) (user : list (list N)) (st : fst_state) (es : list event) : outcome :=
  match es with
  | [] => Ok
  | e :: es' => let '(st', r) := step c o user st e in
                match r with Ok => run_events c o user st' es' | _ => r end
  end.

Definition init_state : fst_state := {| s_attrs := []; s_used := [] |}.

(* metamodel.validate_user_classes, after language_from_str: every user class must have been used by a rule *)
Definition validate_user_classes (c : cfg) (user : list (list N)) (rs : list rule) : outcome :=
  if forallb (fun u => mem_str u (map r_name rs)) user then Ok else TxErr (c_user_unused_cls c) WUserUnused.

(* ---------------------------------------------------------------- second pass: _resolve_rule_refs *)
(* The namespace of a grammar given as a string: a later definition of a name replaces the
   class of an earlier one (the key keeps its place). *)
Fixpoint last_def (n : list N) (rs : list rule) : option rule :=
  match rs with
  | [] => None
  | r :: rs' => match last_def n rs' with
                | Some r' => Some r'
                | None => if str_eqb (r_name r) n then Some r else None
                end
  end.

Fixpoint dedup_names (seen : list (list N)) (rs : list rule) : list (list N) :=
  match rs with
  | [] => []
  | r :: rs' => if mem_str (r_name r) seen then dedup_names seen rs'
                else r_name r :: dedup_names (r_name r :: seen) rs'
  end.

(* the classes of the current namespace in iteration order *)
Definition effective (rs : list rule) : list rule :=
  flat_map (fun n => match last_def n rs with Some r => [r] | None => [] end) (dedup_names [] rs).

(* cls._tx_peg_rule is a RuleCrossRef: the body is one bare rule reference and there are no rule params *)
Definition alias_of (r : rule) : option (list N) :=
  match r_params r with Some _ => None | None => ref_of_choice (r_body r) end.

(* name.rsplit(".", 1) *)
Fixpoint split_first_dot (acc s : list N) : option (list N * list N) :=
  match s with
  | [] => None
  | x :: s' => if N.eqb x c_dot then Some (rev acc, s') else split_first_dot (x :: acc) s'
  end.

Definition split_dot (s : list N) : option (list N * list N) :=
  match split_first_dot [] (rev s) with
  | Some (rnm, rns) => Some (rev rns, rev rnm)
  | None => None
  end.

(* metamodel.referenced_languages after all reference statements *)
Fixpoint lang_of (ns : list N) (ss : list stmt) : option (list N) :=
  match ss with
  | [] => None
  | SImport :: ss' => lang_of ns ss'
  | SReference l a :: ss' =>
      match lang_of ns ss' with
      | Some l' => Some l'
      | None => if str_eqb ns (match a with Some x => x | None => l end) then Some l else None
      end
  end.

(* TextXMetaModel.__getitem__ on a fully qualified name ns.nm *)
Inductive qres := QFound (foreign : bool) | QMissing | QErr (o : outcome).

Definition qualified (c : cfg) (o : oracles) (ss : list stmt) (ns nm : list N) : qres :=
  match lang_of ns ss with
  | Some l =>
      match o_ext o l nm with
      | ExtLangRaises e => QErr (propagate e WRegistration)
      | ExtMissing => QMissing
      | ExtFound => QFound true
      | ExtBuiltin found => if c_mmm_getitem c then (if found then QFound true else QMissing) else QErr (Crash n_TypeError)
      end
  | None => if str_eqb ns s_base && mem_str nm (c_base_names c) then QFound false else QMissing   (* self.namespaces[ns][nm] *)
  end.

Inductive lookup_res := LNone | LReal | LAlias (target : list N) | LErr (o : outcome).

(* `rule_name in metamodel` (= try self[name] except KeyError) / metamodel[rule_name]._tx_peg_rule *)
Definition lookup_rule (c : cfg) (o : oracles) (t : tree) (n : list N) : lookup_res :=
  match split_dot n with
  | Some (ns, nm) =>
      match qualified c o (t_stmts t) ns nm with
      | QFound _ => LReal
      | QMissing => match dispatch (c_contains_clauses c) exc_KeyError WRuleRef with
                    | DSwallowed => LNone                  (* except KeyError: return False *)
                    | DOut e => LErr e
                    end
      | QErr e => LErr e                                   (* not a KeyError: leaves __contains__ *)
      end
  | None =>
      match last_def n (t_rules t) with
      | Some r => match alias_of r with Some tg => LAlias tg | None => LReal end
      | None => if mem_str n (c_base_names c) then LReal else LNone
      end
  end.

(* _resolve_rule on a RuleCrossRef named n; `chain` = alias rules being followed; fuel = Python's
   recursion budget (exhausting it is RecursionError). *)
Fixpoint follow (c : cfg) (o : oracles) (t : tree) (fuel : nat) (chain : list (list N)) (n : list N) : outcome :=
  match fuel with
  | O => Crash n_RecursionError
  | S f =>
      match lookup_rule c o t n with
      | LNone => TxErr CSemantic WRuleRef                        (* Unexisting rule *)
      | LReal => Ok
      | LErr e => e
      | LAlias tg =>
          match c_alias_guard c with
          | Some cl => if mem_str n chain then TxErr cl WRuleRef  (* circular definition *)
                       else follow c o t f (n :: chain) tg
          | None => follow c o t f (n :: chain) tg
          end
      end
  end.

(* rule references of a body in textual order (rule_ref, assignment right-hand sides, match rules of
   object references, default ID) *)
Definition refs_rhs (r : arhs) : list (list N) :=
  match r with
  | ASimple _ => []
  | ARef (RRule n) => [n]
  | ARef (RObj _ (Some n) _) => [n]
  | ARef (RObj _ None _) => [s_ID]
  end.

Fixpoint refs_expr (e : expr) : list (list N) :=
  match e with
  | EAsg _ _ rhs _ => refs_rhs rhs
  | EMatch _ _ => []
  | ERef _ n => [n]
  | EGroup _ c => flat_map (flat_map refs_rexpr) c
  end
with refs_rexpr (r : rexpr) : list (list N) :=
  match r with RX e _ _ => refs_expr e end.     (* `#` keeps the sub-nodes, so no reference is lost *)

Definition refs_rule (r : rule) : list (list N) := flat_map (flat_map refs_rexpr) (r_body r).

(* every reference reachable from parser_model (the first rule, even when a later rule of the same
   name replaces its class) and from the classes of the namespace *)
Definition all_refs (rs : list rule) : list (list N) :=
  match rs with
  | [] => []
  | r0 :: _ => refs_rule r0 ++ flat_map refs_rule (effective rs)
  end.

Definition seq_out (a : outcome) (b : outcome) : outcome := match a with Ok => b | _ => a end.

Fixpoint first_error (l : list outcome) : outcome :=
  match l with
  | [] => Ok
  | Ok :: l' => first_error l'
  | o :: _ => o
  end.

Definition resolve_rule_refs (c : cfg) (o : oracles) (fuel : nat) (t : tree) : outcome :=
  first_error (map (follow c o t fuel []) (all_refs (t_rules t))).

(* ---------------------------------------------------------------- second pass: _determine_rule_types *)
(* For a rule whose resolved peg rule carries another rule's name (an alias rule) the class of the target is
   needed.  Looking it up by `rule.rule_name` fails with KeyError when the chain of (unsuppressed) aliases ends in
   a rule of a referenced language whose unqualified name is not defined here; a suppressed reference is wrapped
   in a Sequence that keeps the name as written. *)
Definition alias_sup (r : rule) : option (list N * bool) :=
  match alias_of r, r_body r with
  | Some tg, [[RX _ _ sup]] => Some (tg, sup)
  | _, _ => None
  end.

Fixpoint ruletype_target (c : cfg) (o : oracles) (t : tree) (fuel : nat) (r : rule) : outcome :=
  match fuel with
  | O => Ok
  | S f =>
      match alias_sup r with
      | None => Ok
      | Some (_, true) => Ok
      | Some (tg, false) =>
          match split_dot tg with
          | Some (ns, nm) =>
              match qualified c o (t_stmts t) ns nm with
              | QFound true =>
                  match last_def nm (t_rules t) with
                  | Some _ => Ok
                  | None => if mem_str nm (c_base_names c) then Ok else Crash n_KeyError
                  end
              | _ => Ok
              end
          | None => match last_def tg (t_rules t) with Some r' => ruletype_target c o t f r' | None => Ok end
          end
      end
  end.

(* The multi-pass fixpoint itself (`while has_change[0]` over _determine_rule_type / _has_nonmatch_ref /
   _add_reffered_classes) is C03's model Model/Kinds.v, run on the grammar as it looks after _resolve_rule_refs:
   rules = the classes of the namespace followed by the __base__ classes, references by index, alias rules
   resolved to the rule whose expression they share.  Its `None` = the loop never ends. *)
Fixpoint index_of (n : list N) (l : list (list N)) : option nat :=
  match l with
  | [] => None
  | x :: l' => if str_eqb n x then Some O else match index_of n l' with Some k => Some (S k) | None => None end
  end.

Definition kinds_names (c : cfg) (t : tree) : list (list N) := map r_name (effective (t_rules t)) ++ c_base_names c.

Definition kcollapse (mk : list Kinds.expr -> Kinds.expr) (l : list Kinds.expr) : Kinds.expr :=
  match l with [x] => x | _ => mk l end.
Definition kwrap (p : bool) (x : Kinds.expr) : Kinds.expr := if p then Kinds.Seq [x] else x.
Definition knodes (x : Kinds.expr) : list Kinds.expr :=
  match x with
  | Kinds.Term => []
  | Kinds.Ref _ => [x]
  | Kinds.Seq es => es
  | Kinds.Choice es => es
  | Kinds.Opt e => [e]
  | Kinds.Plus e => [e]
  end.

Fixpoint kx_expr (names : list (list N)) (e : expr) : Kinds.expr :=
  match e with
  | EAsg _ _ _ _ => Kinds.Term            (* only walked in rules without assignments *)
  | EMatch p _ => kwrap p Kinds.Term
  | ERef p n => kwrap p (match index_of n names with Some k => Kinds.Ref k | None => Kinds.Term end)
  | EGroup p c => kwrap p (kcollapse Kinds.Choice (map (fun s => kcollapse Kinds.Seq (map (kx_rexpr names) s)) c))
  end
with kx_rexpr (names : list (list N)) (r : rexpr) : Kinds.expr :=
  match r with
  | RX e None _ => kx_expr names e
  | RX e (Some (ROpt, _)) _ => Kinds.Opt (kx_expr names e)
  | RX e (Some (RStar, _)) _ => Kinds.Opt (kx_expr names e)
  | RX e (Some (RPlus, _)) _ => Kinds.Plus (kx_expr names e)
  | RX e (Some (RHash, _)) _ => Kinds.Seq (knodes (kx_expr names e))
  end.

(* the rule an alias rule finally shares its expression with *)
Fixpoint alias_final (rs : list rule) (fuel : nat) (n : list N) : list N :=
  match fuel with
  | O => n
  | S f => match last_def n rs with
           | Some r => match alias_sup r with
                       | Some (tg, false) => alias_final rs f tg
                       | Some (tg, true) => tg        (* the Sequence wrapper of a suppressed reference keeps tg's name/class *)
                       | None => n
                       end
           | None => n
           end
  end.

Definition kx_rule (c : cfg) (t : tree) (r : rule) : Kinds.rule :=
  let names := kinds_names c t in
  {| Kinds.r_attrs := match flat_map (flat_map asg_ops_rexpr) (r_body r) with [] => false | _ => true end;
     Kinds.r_body :=
       match alias_sup r with
       | Some (tg, sup) =>
           match index_of (if sup then tg else alias_final (t_rules t) (length (t_rules t)) tg) names with
           | Some k => Kinds.Alias k
           | None => Kinds.Body Kinds.Term
           end
       | None => Kinds.Body (kcollapse Kinds.Choice (map (fun s => kcollapse Kinds.Seq (map (kx_rexpr names) s)) (r_body r)))
       end |}.

Definition to_kinds (c : cfg) (t : tree) : list Kinds.rule :=
  map (kx_rule c t) (effective (t_rules t)) ++ map (fun _ => Kinds.default_rule) (c_base_names c).

Definition rule_kinds_fixpoint (c : cfg) (t : tree) : outcome :=
  match Kinds.determine_types (to_kinds c t) with
  | Some _ => Ok
  | None => Crash n_RecursionError          (* never: C23_rule_kind_fixpoint_terminates *)
  end.

Definition determine_rule_types (c : cfg) (o : oracles) (fuel : nat) (t : tree) : outcome :=
  seq_out (if c_ruletype_by_class c then Ok
           else first_error (map (ruletype_target c o t fuel) (effective (t_rules t))))
          (rule_kinds_fixpoint c t).

(* ---------------------------------------------------------------- second pass: _resolve_cls_refs *)
(* attribute types as visit_assignment records them *)
Definition type_of_asg (op : aop) (rhs : arhs) : list N :=
  match rhs with
  | ARef (RObj cls _ _) => cls                     (* target_cls wins, also for ?= *)
  | _ => match op with
         | OpOpt => s_BOOL
         | _ => match rhs with
                | ARef (RRule n) => n
                | _ => s_STRING
                end
         end
  end.

Fixpoint asgs_expr (e : expr) : list (list N * list N) :=
  match e with
  | EAsg a op rhs _ => [(a, type_of_asg op rhs)]
  | EMatch _ _ => []
  | ERef _ _ => []
  | EGroup _ c => flat_map (flat_map asgs_rexpr) c
  end
with asgs_rexpr (r : rexpr) : list (list N * list N) :=
  match r with RX e _ _ => asgs_expr e end.

(* cls._tx_attrs: first assignment fixes the type, a later one with another type makes it OBJECT *)
Fixpoint add_attr (a t : list N) (l : list (list N * list N)) : list (list N * list N) :=
  match l with
  | [] => [(a, t)]
  | (a', t') :: l' => if str_eqb a a' then (a', if str_eqb t t' then t' else s_OBJECT) :: l'
                      else (a', t') :: add_attr a t l'
  end.

Definition attrs_rule (r : rule) : list (list N * list N) :=
  fold_left (fun acc at_ => add_attr (fst at_) (snd at_) acc) (flat_map (flat_map asgs_rexpr) (r_body r)) [].

(* metamodel[cls_name] inside the try of _resolve_cls *)
Definition resolve_cls_name (c : cfg) (o : oracles) (t : tree) (n : list N) : outcome :=
  let keyerror := out_of (dispatch (c_keyerror_clauses c) exc_KeyError WClsRef) in
  match split_dot n with
  | Some (ns, nm) =>
      match qualified c o (t_stmts t) ns nm with
      | QFound _ => Ok
      | QMissing => keyerror
      | QErr e => e
      end
  | None =>
      match last_def n (t_rules t) with
      | Some _ => Ok
      | None => if mem_str n (c_base_names c) then Ok else keyerror
      end
  end.

Definition cls_errors (c : cfg) (o : oracles) (t : tree) : list outcome :=
  map (fun at_ => resolve_cls_name c o t (snd at_)) (flat_map attrs_rule (effective (t_rules t))).

Definition resolve_cls_refs (c : cfg) (o : oracles) (t : tree) : outcome := first_error (cls_errors c o t).

(* ---------------------------------------------------------------- metamodel_from_str *)

Definition front (c : cfg) (o : oracles) (user : list (list N)) (fuel : nat) (g : ginput) : outcome :=
  match g with
  | GParseRaises e => out_of (dispatch (c_nomatch_clauses c) e WParse)
  | GTree t =>
      seq_out (visit_stmts (t_stmts t))
      (seq_out (run_events c o user init_state (events t))
      (seq_out (resolve_rule_refs c o fuel t)
      (seq_out (determine_rule_types c o fuel t)
      (seq_out (resolve_cls_refs c o t)
               (validate_user_classes c user (t_rules t))))))
  end.

Definition has_import (g : ginput) : bool :=
  match g with
  | GParseRaises _ => false
  | GTree t => existsb (fun s => match s with SImport => true | _ => false end) (t_stmts t)
  end.

(* the parser raises nothing but NoMatch (false for deeply nested texts: known finding interp-recursion-limit) *)
Definition parse_wf (g : ginput) : Prop :=
  match g with GParseRaises e => In n_NoMatch (x_mro e) | GTree _ => True end.

Definition nrules (g : ginput) : nat := match g with GParseRaises _ => O | GTree t => length (t_rules t) end.
