(* Executable model of textX model construction: textx/model.py parse_tree_to_objgraph
   (process_node / process_match), metamodel._init_obj_attrs, get_location and Arpeggio's
   Parser.pos_to_linecol, on the parse trees of Model/Peg.v.  No proofs here.

   The metamodel is not compiled in Coq: tools/mmdump.py dumps, per parser-model node id, what
   model construction reads off the live objects ([ninfo]): for `__asgn_*` nodes the attribute
   name and operator, for rule roots the rule kind, class name and the class' _tx_attrs.
   Base-type conversion (metamodel.process with the default object processors) is kept symbolic:
   a value records the rule name and the text it is applied to ([VTerm], [VJoin], [VConv]); the
   checker evaluates it.  Only the truthiness of converted values is decided here (it is what
   the "Multiple assignments" test reads).
   Non-containment references ([Rule] right-hand sides) are kept as pending values [VRef name position class]
   in the place (attribute / list position) where reference resolution later puts the resolved object;
   resolution itself is the subject of C07-C11. *)
From TxV Require Import Core.Base Core.Show Model.PegSyntax Model.Peg.

Inductive rkind := RCommon | RAbstract | RMatch.
Inductive mult := M1 | MOpt | MStar | MPlus.
Record attr := mkAttr {
  a_name : list N; a_mult : mult; a_cont : bool; a_ref : bool;
  a_cls : list N;              (* attr.cls.__name__ *)
  a_bool : bool                (* bool_assignment *)
}.
Inductive aop := OpPlain | OpOptional | OpList | OpOther.
Inductive ninfo :=
| IAsgn (a : list N) (op : aop)                        (* rule_name starts with __asgn *)
| IRule (k : rkind) (cls : list N) (attrs : list attr) (* root node with _tx_class *)
| ITerm (rule : list N) (groups : nat)                 (* Match node; regex.groups *)
| IOther.

Inductive value :=
| VNone
| VBool (b : bool)
| VDefault (ty : list N)                   (* python_type(ty)() *)
| VStr (s : list N)                        (* a plain str *)
| VTerm (rule : list N) (txt : list N)     (* metamodel.process(txt, rule) *)
| VJoin (rule : list N) (parts : list value)   (* process("".join(str(p) for p in parts), rule) *)
| VConv (rule : list N) (v : value)        (* process(v, rule) *)
| VObj (cls : list N) (p e : nat) (attrs : list (list N * value))
| VRef (name : value) (p : nat) (cls : list N)   (* ObjCrossRef(obj_name, cls, position), pending *)
| VList (l : list value).

Inductive berr :=
| ESem          (* TextXSemanticError: multiple assignment, unhashable name *)
| ECrash        (* any other Python exception *)
| EUnsup.       (* outside the model *)
Inductive bres (A : Type) := BOk (a : A) | BErr (e : berr).
Arguments BOk {A} a.
Arguments BErr {A} e.

(* ---------------------------------------------------------------- names *)
Definition s_INT : list N := [73;78;84]%N.
Definition s_FLOAT : list N := [70;76;79;65;84]%N.
Definition s_STRICTFLOAT : list N := [83;84;82;73;67;84;70;76;79;65;84]%N.
Definition s_BOOL : list N := [66;79;79;76]%N.
Definition s_STRING : list N := [83;84;82;73;78;71]%N.
Definition s_ID : list N := [73;68]%N.
Definition s_NUMBER : list N := [78;85;77;66;69;82]%N.
Definition s_BASETYPE : list N := [66;65;83;69;84;89;80;69]%N.
Definition s_true : list N := [116;114;117;101]%N.
Definition s_name : list N := [110;97;109;101]%N.

Definition is_base5 (r : list N) : bool := mem_str r [s_INT; s_FLOAT; s_STRICTFLOAT; s_BOOL; s_STRING].
(* textx.lang.BASE_TYPE_NAMES *)
Definition is_base_type (r : list N) : bool :=
  mem_str r [s_ID; s_BOOL; s_INT; s_FLOAT; s_STRICTFLOAT; s_STRING; s_NUMBER; s_BASETYPE].

(* ---------------------------------------------------------------- positions of parse tree nodes *)
Fixpoint tpos (t : tree) : nat :=
  match t with
  | T _ p _ _ => p
  | NT _ kids => match kids with [] => 0 | k :: _ => tpos k end     (* nodes[0].position if nodes else 0 *)
  end.

Fixpoint tend (t : tree) : nat :=
  match t with
  | T _ p len _ => p + len                                          (* position + len(value) *)
  | NT _ kids =>
    match (fix lastend (l : list tree) : option nat :=
             match l with
             | [] => None
             | k :: l' => match lastend l' with Some e => Some e | None => Some (tend k) end
             end) kids with
    | Some e => e
    | None => 0                                                     (* self.position of an empty NT *)
    end
  end.

(* well-formed parse tree: non-empty terminals, non-empty NonTerminals, children laid out left to
   right without overlap *)
Fixpoint ordered (l : list tree) : bool :=
  match l with
  | k1 :: l' => match l' with
                | k2 :: _ => Nat.leb (tend k1) (tpos k2) && ordered l'
                | [] => true
                end
  | [] => true
  end.
Fixpoint wf_tree (t : tree) : bool :=
  match t with
  | T _ _ len _ => Nat.ltb 0 len
  | NT _ kids => match kids with [] => false | _ => true end && forallb wf_tree kids && ordered kids
  end.

(* ---------------------------------------------------------------- pos_to_linecol *)
(* line_ends: positions of "\n" *)
Fixpoint line_ends_from (l : list N) (p : nat) : list nat :=
  match l with
  | [] => []
  | c :: l' => if N.eqb c 10 then p :: line_ends_from l' (S p) else line_ends_from l' (S p)
  end.
(* bisect.bisect_left on the (sorted) list: number of elements < pos *)
Definition bisect_left (l : list nat) (x : nat) : nat := List.length (filter (fun e => Nat.ltb e x) l).
Definition pos_to_linecol (input : list N) (p : nat) : nat * nat :=
  let les := line_ends_from input 0 in
  let line := bisect_left les p in
  let col := match line with
             | 0 => p
             | S l1 => p - nth l1 les 0 - 1      (* input[line_ends[line-1]] is "\n" *)
             end in
  (line + 1, col + 1).

(* ---------------------------------------------------------------- truthiness of converted values *)
Definition nonempty (s : list N) : bool := match s with [] => false | _ => true end.
Definition has_nonzero_digit (s : list N) : bool := existsb (fun c => N.leb 49 c && N.leb c 57) s.
Fixpoint mantissa (s : list N) : list N :=
  match s with
  | [] => []
  | c :: s' => if (N.eqb c 101 || N.eqb c 69) then [] else c :: mantissa s'
  end.
Definition lower (c : N) : N := if (N.leb 65 c && N.leb c 90) then (c + 32)%N else c.

(* bool(process(txt, rule)) with the default object processors *)
Definition term_truthy (rule txt : list N) : bool :=
  if str_eqb rule s_INT then has_nonzero_digit txt
  else if (str_eqb rule s_FLOAT || str_eqb rule s_STRICTFLOAT) then has_nonzero_digit (mantissa txt)
  else if str_eqb rule s_BOOL then (str_eqb txt [49%N] || str_eqb (map lower txt) s_true)
  else if str_eqb rule s_STRING then Nat.ltb 2 (List.length txt)
  else nonempty txt.
(* str(process(txt, rule)) != "" *)
Definition term_str_nonempty (rule txt : list N) : bool :=
  if str_eqb rule s_STRING then Nat.ltb 2 (List.length txt)
  else if is_base5 rule then true
  else nonempty txt.

Fixpoint str_nonempty (v : value) : bool :=
  match v with
  | VStr s => nonempty s
  | VTerm r t => term_str_nonempty r t
  | VJoin _ ps => (fix go (l : list value) : bool :=
                     match l with [] => false | x :: l' => str_nonempty x || go l' end) ps
  | VConv _ x => str_nonempty x
  | _ => true
  end.

Fixpoint val_truthy (v : value) : bool :=
  match v with
  | VNone => false
  | VBool b => b
  | VDefault _ => false
  | VStr s => nonempty s
  | VTerm r t => term_truthy r t
  | VJoin _ ps => (fix go (l : list value) : bool :=
                     match l with [] => false | x :: l' => str_nonempty x || go l' end) ps
  | VConv _ x => val_truthy x
  | VObj _ _ _ _ => true
  | VRef _ _ _ => false        (* the attribute still holds its initial value while the model is built *)
  | VList l => match l with [] => false | _ => true end
  end.
Definition is_vlist (v : value) : bool := match v with VList _ => true | _ => false end.

(* ---------------------------------------------------------------- the object under construction *)
Record cur := mkCur {
  c_cls : list N; c_meta : list attr; c_pos : nat; c_end : nat;
  c_vals : list (list N * value)           (* instance attributes, in _tx_attrs order *)
}.

Fixpoint find_attr (a : list N) (l : list attr) : option attr :=
  match l with
  | [] => None
  | x :: l' => if str_eqb a (a_name x) then Some x else find_attr a l'
  end.
Fixpoint get_val (a : list N) (l : list (list N * value)) : option value :=
  match l with
  | [] => None
  | (k, v) :: l' => if str_eqb a k then Some v else get_val a l'
  end.
Fixpoint set_val (a : list N) (v : value) (l : list (list N * value)) : list (list N * value) :=
  match l with
  | [] => [(a, v)]
  | (k, w) :: l' => if str_eqb a k then (k, v) :: l' else (k, w) :: set_val a v l'
  end.
Definition cur_set (a : list N) (v : value) (c : cur) : cur :=
  mkCur (c_cls c) (c_meta c) (c_pos c) (c_end c) (set_val a v (c_vals c)).

(* ---------------------------------------------------------------- loops over children
   (the recursive call is a parameter, so that lemmas about a loop do not need the tree induction) *)
Section Loops.
Variable rec : tree -> option cur -> bres (value * option cur).

(* for n in node: process_node(n) *)
Fixpoint each_loop (l : list tree) (top : option cur) : bres (option cur) :=
  match l with
  | [] => BOk top
  | k :: l' => match rec k top with
               | BOk (_, top1) => each_loop l' top1
               | BErr e => BErr e
               end
  end.

(* the loop of a list assignment (+= / *=) *)
Fixpoint lst_loop (is_sep : tree -> bool) (a : list N) (refcls : option (list N)) (l : list tree)
         (top : option cur) : bres (option cur) :=
  match l with
  | [] => BOk top
  | k :: l' =>
    if is_sep k then lst_loop is_sep a refcls l' top
    else
      match rec k top with
      | BOk (v0, top1) =>
        let v := match refcls with Some cl => VRef v0 (tpos k) cl | None => v0 end in
        match top1 with
        | None => BErr ECrash
        | Some c1 =>
          match get_val a (c_vals c1) with
          | Some (VList vs) => lst_loop is_sep a refcls l' (Some (cur_set a (VList (vs ++ [v])) c1))
          | Some VNone => lst_loop is_sep a refcls l' (Some (cur_set a (VList [v]) c1))
          | _ => BErr ECrash
          end
        end
      | BErr e => BErr e
      end
  end.

(* abstract rule with several children (model.py, after the C03 repair):
     nonterminals = [n for n in node if type(n) is not Terminal]
     for n in nonterminals: if n.rule._tx_class._tx_type != RULE_MATCH: return process_node(n)
     if nonterminals: return process_node(nonterminals[0])
   [kind_of xn] = Some true: class that is not a match rule; Some false: match rule; None: no _tx_class *)
Fixpoint first_nonmatch (kind_of : nat -> option bool) (l : list tree) (top : option cur)
  : option (bres (value * option cur)) :=
  match l with
  | [] => None
  | x :: l' =>
    match x with
    | NT xn _ => match kind_of xn with
                 | None => Some (BErr ECrash)
                 | Some true => Some (rec x top)
                 | Some false => first_nonmatch kind_of l' top
                 end
    | T _ _ _ _ => first_nonmatch kind_of l' top
    end
  end.
Fixpoint first_nt (has_cls : nat -> bool) (l : list tree) (top : option cur)
  : option (bres (value * option cur)) :=
  match l with
  | [] => None
  | x :: l' =>
    match x with
    | NT xn _ => Some (if has_cls xn then rec x top else BErr ECrash)
    | T _ _ _ _ => first_nt has_cls l' top
    end
  end.
End Loops.

Section Build.
Variable g : grammar.
Variable mm : list ninfo.
Variable input : list N.
Variable grp : nat -> nat -> option (nat * nat).   (* oracle id -> position -> span of group(1) *)
Variable auto : bool.                              (* auto_init_attributes *)
Variable use_grp : bool.                           (* use_regexp_group *)

Definition info (nid : nat) : ninfo := nth nid mm IOther.
Definition rule_of (nid : nat) : list N :=
  match get_node g nid with Some nd => n_rule nd | None => [] end.
Definition slice (p len : nat) : list N := firstn len (skipn p input).

(* Terminal.value *)
Definition term_text (nid p len : nat) : list N :=
  match get_node g nid with
  | Some nd => match n_kind nd with
               | KStr t _ => t
               | KRegex _ => slice p len
               | _ => []
               end
  | None => []
  end.
Definition tree_text (t : tree) : list N :=      (* str(node) for Terminals; used for Terminals only *)
  match t with T nid p len _ => term_text nid p len | NT _ _ => [] end.

(* metamodel._init_obj_attrs *)
Definition init_attr (a : attr) : value :=
  match a_mult a with
  | MStar | MPlus => VList []
  | _ => if is_base_type (a_cls a) then
           if auto then VDefault (a_cls a)
           else if a_bool a then VBool false else VNone
         else VNone
  end.
Definition init_attrs (l : list attr) : list (list N * value) := map (fun a => (a_name a, init_attr a)) l.

(* process_node on a Terminal *)
Definition term_value (nid p len : nat) : bres value :=
  let plain := BOk (VTerm (rule_of nid) (term_text nid p len)) in
  if use_grp then
    match get_node g nid with
    | Some nd =>
      match n_kind nd, info nid with
      | KRegex o, ITerm _ 1 =>
        match grp o p with
        | Some (gs, gl) => BOk (VTerm (rule_of nid) (slice gs gl))
        | None => if is_base5 (rule_of nid) then BErr ECrash else BOk VNone   (* process(None, rule) *)
        end
      | _, _ => plain
      end
    | None => plain
    end
  else plain.

(* process_match *)
Fixpoint pmatch (t : tree) : bres value :=
  match t with
  | T nid p len _ => BOk (VTerm (rule_of nid) (term_text nid p len))
  | NT nid kids =>
    if is_base5 (rule_of nid) then BErr EUnsup else
    match kids with
    | [] => BErr ECrash                                             (* nt[0] *)
    | k :: rest =>
      match rest with
      | [] => match pmatch k with BOk v => BOk (VConv (rule_of nid) v) | BErr e => BErr e end
      | _ :: _ =>
        match (fix go (l : list tree) : bres (list value) :=
                 match l with
                 | [] => BOk []
                 | x :: l' => match pmatch x with
                              | BOk v => match go l' with BOk vs => BOk (v :: vs) | BErr e => BErr e end
                              | BErr e => BErr e
                              end
                 end) kids with
        | BOk vs => BOk (VJoin (rule_of nid) vs)
        | BErr e => BErr e
        end
      end
    end
  end.

Definition has_class (nid : nat) : bool := match info nid with IRule _ _ _ => true | _ => false end.
Definition nonmatch_class (nid : nat) : option bool :=
  match info nid with
  | IRule RMatch _ _ => Some false
  | IRule _ _ _ => Some true
  | _ => None
  end.
Definition tree_nid (t : tree) : nat := match t with T n _ _ _ => n | NT n _ => n end.

(* `n.rule is node.rule.sep` (after the fix; the original test was n.rule_name != "sep") *)
Definition is_sep_of (asg : nat) (t : tree) : bool :=
  match get_node g asg with
  | Some nd => match n_sep nd with Some s => Nat.eqb s (tree_nid t) | None => false end
  | None => false
  end.

(* the check after the children of a common-rule node: hasattr(inst, "name") and inst.name ->
   parser._instances[...][inst.name] = inst  (TypeError for a list -> TextXSemanticError) *)
Definition name_ok (vals : list (list N * value)) : bool :=
  match get_val s_name vals with
  | Some (VList (_ :: _)) => false
  | _ => true
  end.

(* Not modelled: call_obj_processors (after the whole model is built) iterates over every contained
   many-valued attribute; when such an attribute holds a scalar (one attribute assigned with ?= / =
   and with *= / += ) it raises TypeError or walks the characters of a string.  Such objects are
   outside the model. *)
Definition many_ok (meta : list attr) (vals : list (list N * value)) : bool :=
  forallb (fun ma =>
             match a_mult ma with
             | MStar | MPlus =>
               if a_cont ma then
                 match get_val (a_name ma) vals with
                 | Some (VList _) | Some VNone | None => true
                 | _ => false
                 end
               else true
             | _ => true
             end) meta.

(* process_node; [top] is the top of parser._inst_stack.  Returns the value and the new top. *)
Fixpoint pnode (t : tree) (top : option cur) : bres (value * option cur) :=
  match t with
  | T nid p len _ => match term_value nid p len with BOk v => BOk (v, top) | BErr e => BErr e end
  | NT nid kids =>
    match info nid with
    | IAsgn a op =>
      match top with
      | None => BErr ECrash                                         (* parser._inst_stack[-1] *)
      | Some c =>
        match find_attr a (c_meta c) with
        | None => BErr ECrash                                       (* cls._tx_attrs[attr_name] *)
        | Some ma =>
          match op with
          | OpOptional => BOk (VNone, Some (cur_set a (VBool true) c))
          | OpPlain =>
            match get_val a (c_vals c) with
            | None => BErr ECrash
            | Some av =>
              if (val_truthy av && negb (is_vlist av))%bool then BErr ESem    (* Multiple assignments *)
              else
                match kids with
                | [] => BErr ECrash                                 (* node[0] *)
                | k :: _ =>
                  match pnode k top with
                  | BOk (v0, top1) =>
                    let v := if (a_ref ma && negb (a_cont ma))%bool then VRef v0 (tpos k) (a_cls ma) else v0 in
                    match top1 with
                    | None => BErr ECrash
                    | Some c1 =>
                      match av with
                      | VList l => BOk (VNone, Some (cur_set a (VList (l ++ [v])) c1))
                      | _ => BOk (VNone, Some (cur_set a v c1))
                      end
                    end
                  | BErr e => BErr e
                  end
                end
            end
          | OpList =>
            match lst_loop pnode (is_sep_of nid) a (if (a_ref ma && negb (a_cont ma))%bool then Some (a_cls ma) else None) kids top with
            | BOk top' => BOk (VNone, top')
            | BErr e => BErr e
            end
          | OpOther => BErr ECrash                                  (* AssertionError *)
          end
        end
      end
    | IRule RAbstract _ _ =>
      match kids with
      | [] => BErr ECrash
      | k :: rest =>
        match rest with
        | [] => pnode k top
        | _ :: _ =>
          match first_nonmatch pnode nonmatch_class kids top with
          | Some r => r
          | None =>
            match first_nt pnode has_class kids top with
            | Some r => r
            | None => BOk (VStr (List.concat (map tree_text kids)), top)
            end
          end
        end
      end
    | IRule RMatch _ _ =>
      match pmatch t with BOk v => BOk (v, top) | BErr e => BErr e end
    | IRule RCommon cls attrs =>
      let c0 := mkCur cls attrs (tpos t) (tend t) (init_attrs attrs) in
      match each_loop pnode kids (Some c0) with
      | BOk (Some c1) =>
        if name_ok (c_vals c1) then
          if many_ok (c_meta c1) (c_vals c1) then BOk (VObj (c_cls c1) (c_pos c1) (c_end c1) (c_vals c1), top)
          else BErr EUnsup
        else BErr ESem
      | BOk None => BErr ECrash
      | BErr e => BErr e
      end
    | ITerm _ _ | IOther => BErr ECrash                             (* node.rule._tx_class *)
    end
  end.

(* parse_tree_to_objgraph(parser, parser.parse_tree[0]) *)
Definition build (r : res) : bres value :=
  match r with
  | RTree (NT _ (t :: _)) => match pnode t None with BOk (v, _) => BOk v | BErr e => BErr e end
  | _ => BErr ECrash
  end.

(* the same on the flattened top-level result (what the reference semantics produce) *)
Definition build_flat (l : list tree) : bres value :=
  match l with
  | [NT _ (t :: _)] => match pnode t None with BOk (v, _) => BOk v | BErr e => BErr e end
  | _ => BErr ECrash
  end.

End Build.

(* get_location(obj) for an object value: ((line, col), nchar) *)
Definition get_location (input : list N) (p e : nat) : (nat * nat) * nat :=
  (pos_to_linecol input p, e - p).

(* span oracle from a finite table *)
Definition grp_of (tbl : list ((nat * nat) * (nat * nat))) (o p : nat) : option (nat * nat) :=
  (fix go (m : list ((nat * nat) * (nat * nat))) : option (nat * nat) :=
     match m with
     | [] => None
     | ((o', p'), v) :: m' => if (Nat.eqb o o' && Nat.eqb p p')%bool then Some v else go m'
     end) tbl.

(* ---------------------------------------------------------------- printing (python literal syntax) *)
Open Scope string_scope.
Definition show_codes (s : list N) : string := "[" ++ sjoin "," (map show_N s) ++ "]".

Section ShowV.
Variable input : list N.
Fixpoint show_value (v : value) : string :=
  match v with
  | VNone => "('none',)"
  | VBool b => "('bool'," ++ (if b then "1" else "0") ++ ")"
  | VDefault ty => "('default'," ++ show_codes ty ++ ")"
  | VStr s => "('str'," ++ show_codes s ++ ")"
  | VTerm r t => "('term'," ++ show_codes r ++ "," ++ show_codes t ++ ")"
  | VJoin r ps => "('join'," ++ show_codes r ++ ",[" ++
      sjoin "," ((fix go (l : list value) : list string :=
                    match l with [] => [] | x :: l' => show_value x :: go l' end) ps) ++ "])"
  | VConv r x => "('conv'," ++ show_codes r ++ "," ++ show_value x ++ ")"
  | VObj cls p e attrs =>
    let '(lc, nchar) := get_location input p e in
    "('obj'," ++ show_codes cls ++ "," ++ show_nat p ++ "," ++ show_nat e ++ ","
      ++ show_nat (fst lc) ++ "," ++ show_nat (snd lc) ++ "," ++ show_nat nchar ++ ",[" ++
      sjoin "," ((fix go (l : list (list N * value)) : list string :=
                    match l with
                    | [] => []
                    | (k, x) :: l' => ("(" ++ show_codes k ++ "," ++ show_value x ++ ")") :: go l'
                    end) attrs) ++ "])"
  | VRef nm p cl => "('ref'," ++ show_value nm ++ "," ++ show_nat p ++ "," ++ show_codes cl ++ ")"
  | VList l => "('list',[" ++
      sjoin "," ((fix go (l : list value) : list string :=
                    match l with [] => [] | x :: l' => show_value x :: go l' end) l) ++ "])"
  end.
End ShowV.

Definition show_berr (e : berr) : string :=
  match e with ESem => "sem" | ECrash => "crash" | EUnsup => "unsup" end.

(* one correspondence case: parse (memoization off), then build *)
Definition show_build (g : grammar) (c : config) (mm : list ninfo) (tbl : list ((nat * nat) * nat))
           (gtbl : list ((nat * nat) * (nat * nat))) (auto use_grp : bool) (fuel : nat)
           (input : list N) : string :=
  match run g c (orc_of tbl) false fuel input with
  | Parsed r =>
    match build g mm input (grp_of gtbl) auto use_grp r with
    | BOk v => "('ok'," ++ show_value input v ++ ")"
    | BErr e => "('err','" ++ show_berr e ++ "')"
    end
  | SyntaxErr p => "('syntax'," ++ show_nat p ++ ")"
  | Aborted w => "('abort'," ++ show_nat w ++ ")"
  end.

(* assignment nodes occur only as direct children of common-rule nodes (what the grammar compiler
   produces: an assignment belongs to the rule it is written in, its right-hand side is a match or a
   rule reference) *)
Fixpoint asg_placed (mm : list ninfo) (under_common : bool) (t : tree) : bool :=
  match t with
  | T _ _ _ _ => true
  | NT nid kids =>
    match nth nid mm IOther with
    | IAsgn _ _ => under_common && forallb (asg_placed mm false) kids
    | IRule RCommon _ _ => forallb (asg_placed mm true) kids
    | _ => forallb (asg_placed mm false) kids
    end
  end.
