(* RREL concrete syntax: the expression trees built by textx/scoping/rrel.py (after the
   constructors' normalisations), their printed form (__repr__) and a parser for the
   grammar rrel.py:6-56 (lexer + PEG-ordered recursive descent over tokens).

   Modelling choice: Arpeggio is scannerless; this model tokenises first (maximal runs of
   identifier characters and of dots, quoted strings, flags) and then parses tokens in the
   PEG order of the grammar.  The agreement of the two on acceptance and on the resulting
   tree is validated by the correspondence check on valid and invalid texts. *)
From TxV Require Import Core.Base.

Inductive elem :=
| EParent (ty : list N)
| ENav (name : list N) (consume : bool) (fixed : option (list N))
| EDots (n : nat)
| EBr (s : seq)                         (* RRELBrackets(RRELSequence ..)                *)
| EStar (s : seq)                       (* RRELZeroOrMore(RRELBrackets(RRELSequence ..)) *)
with path := P1 (e : elem) | PCons (e : elem) (p : path)
with seq := S1 (p : path) | SCons (p : path) (s : seq).

Scheme elem_mut := Induction for elem Sort Prop
  with path_mut := Induction for path Sort Prop
  with seq_mut := Induction for seq Sort Prop.
Combined Scheme rrel_mutind from elem_mut, path_mut, seq_mut.

Record expr := { eseq : seq; eflags : list N }.

Inductive tok :=
| TId (s : list N) | TStr (s : list N) (q : N) | TDots (n : nat)
| TComma | TLP | TRP | TStar | TTilde | TCaret | TFlags (s : list N).

Definition c_squote : N := 39.  Definition c_dquote : N := 34.  Definition c_bslash : N := 92.
Definition kw_parent : list N := [112;97;114;101;110;116]%N.

(* ------------------------------------------------------------ printing *)
Definition has (c : N) (s : list N) : bool := existsb (N.eqb c) s.
(* f contains a q that is not escaped (not the second character of a backslash-q pair, pairs
   taken from left to right as string_value's regex does) *)
Fixpoint unesc (q : N) (f : list N) : bool :=
  match f with
  | [] => false
  | c :: f' =>
      if N.eqb c q then true
      else if N.eqb c c_bslash then
        match f' with
        | [] => false
        | c2 :: f'' => if N.eqb c2 q then unesc q f'' else unesc q f'
        end
      else unesc q f'
  end.
(* the quote used for a fixed name: single quotes unless the name contains an unescaped one
   (RRELNavigation.__repr__ after fixes 0c7cac7 and 338be55) *)
Definition quote_for (f : list N) : N := if unesc c_squote f then c_dquote else c_squote.

(* '^' is stored as ( .. )* in front of the path; it prints as such *)
Fixpoint t_elem (e : elem) : list tok :=
  match e with
  | EParent t => [TId kw_parent; TLP; TId t; TRP]
  | ENav n c f => match f with
                  | Some fx => [TStr fx (quote_for fx); TTilde; TId n]
                  | None => if c then [TId n] else [TTilde; TId n]
                  end
  | EDots n => [TDots n]
  | EBr s => TLP :: t_seq s ++ [TRP]
  | EStar s => TLP :: t_seq s ++ [TRP; TStar]
  end
with t_path_tail (p : path) : list tok :=     (* elements joined by "." *)
  match p with
  | P1 e => t_elem e
  | PCons e p' => t_elem e ++ TDots 1 :: t_path_tail p'
  end
with t_seq (s : seq) : list tok :=
  match s with
  | S1 p => (match p with
             | PCons (EDots n) p' => TDots n :: t_path_tail p'
             | _ => t_path_tail p
             end)
  | SCons p s' => (match p with
                   | PCons (EDots n) p' => TDots n :: t_path_tail p'
                   | _ => t_path_tail p
                   end) ++ TComma :: t_seq s'
  end.

Definition t_path (p : path) : list tok :=
  match p with
  | PCons (EDots n) p' => TDots n :: t_path_tail p'
  | _ => t_path_tail p
  end.

Definition t_expr (e : expr) : list tok :=
  match eflags e with
  | [] => t_seq (eseq e)
  | fl => TFlags fl :: t_seq (eseq e)
  end.

Definition r_tok (t : tok) : list N :=
  match t with
  | TId s => s
  | TStr s q => q :: s ++ [q]
  | TDots n => repeat 46%N n
  | TComma => [44]%N | TLP => [40]%N | TRP => [41]%N | TStar => [42]%N
  | TTilde => [126]%N | TCaret => [94]%N
  | TFlags s => 43%N :: s ++ [58]%N
  end.
Definition render (ts : list tok) : list N := flat_map r_tok ts.
Definition print (e : expr) : list N := render (t_expr e).

(* ------------------------------------------------------------ lexing *)
Definition is_ws (c : N) : bool := (N.eqb c 32 || N.eqb c 9 || N.eqb c 10 || N.eqb c 13)%bool.
Definition is_digit (c : N) : bool := (N.leb 48 c && N.leb c 57)%bool.
Definition is_alpha (c : N) : bool :=
  ((N.leb 65 c && N.leb c 90) || (N.leb 97 c && N.leb c 122) || N.eqb c 95)%bool.
Definition is_word (c : N) : bool := (is_alpha c || is_digit c)%bool.

Fixpoint span (f : N -> bool) (s : list N) : list N * list N :=
  match s with
  | c :: s' => if f c then let '(a, b) := span f s' in (c :: a, b) else ([], s)
  | [] => ([], [])
  end.

(* string_value: q ((\q)|[^q])* q with the regex engine's greedy-then-backtrack order.
   acc: content so far (reversed); bt: the most recent backtrack point (content, rest) at
   which an escaped quote can be re-read as backslash + closing quote. *)
Fixpoint scan_str (q : N) (s : list N) (acc : list N) (bt : option (list N * list N))
  : option (list N * list N) :=
  match s with
  | [] => bt
  | c :: s' =>
      if N.eqb c q then Some (rev acc, s')
      else if N.eqb c c_bslash then
        match s' with
        | c2 :: s'' => if N.eqb c2 q
                       then scan_str q s'' (c2 :: c :: acc) (Some (rev (c :: acc), s''))
                       else scan_str q s' (c :: acc) bt
        | [] => bt
        end
      else scan_str q s' (c :: acc) bt
  end.

Definition is_flagch (c : N) : bool := (N.eqb c 109 || N.eqb c 112)%bool.

Fixpoint lex (fuel : nat) (s : list N) : option (list tok) :=
  match fuel with
  | O => None
  | S fuel' =>
      match s with
      | [] => Some []
      | c :: s' =>
          if is_ws c then lex fuel' s'
          else if is_alpha c then
            let '(a, b) := span is_word s' in option_map (cons (TId (c :: a))) (lex fuel' b)
          else if N.eqb c 46 then
            let '(a, b) := span (N.eqb 46) s' in option_map (cons (TDots (S (length a)))) (lex fuel' b)
          else if (N.eqb c c_squote || N.eqb c c_dquote)%bool then
            match scan_str c s' [] None with
            | Some (content, rest) => option_map (cons (TStr content c)) (lex fuel' rest)
            | None => None
            end
          else if N.eqb c 43 then
            let '(a, b) := span is_flagch s' in
            match a, b with
            | _ :: _, 58%N :: b' => option_map (cons (TFlags a)) (lex fuel' b')
            | _, _ => None
            end
          else if N.eqb c 44 then option_map (cons TComma) (lex fuel' s')
          else if N.eqb c 40 then option_map (cons TLP) (lex fuel' s')
          else if N.eqb c 41 then option_map (cons TRP) (lex fuel' s')
          else if N.eqb c 42 then option_map (cons TStar) (lex fuel' s')
          else if N.eqb c 126 then option_map (cons TTilde) (lex fuel' s')
          else if N.eqb c 94 then option_map (cons TCaret) (lex fuel' s')
          else None
      end
  end.

(* ------------------------------------------------------------ parsing tokens (PEG order) *)
Definition caret_elem : elem := EStar (S1 (P1 (EDots 2))).
Definition star_of (e : elem) : elem :=
  match e with
  | EBr s => EStar s
  | _ => EStar (S1 (P1 e))
  end.

Fixpoint pcons_all (es : list elem) (last : elem) : path :=
  match es with
  | [] => P1 last
  | e :: es' => PCons e (pcons_all es' last)
  end.

Fixpoint p_seq (fuel : nat) (ts : list tok) : option (seq * list tok) :=
  match fuel with
  | O => None
  | S fuel' =>
      match p_path fuel' ts with
      | Some (p, TComma :: ts') =>
          (* one more iteration of (path ',')*; when what follows is not a sequence the
             PEG loop has still consumed "path ," and the final path fails *)
          match p_seq fuel' ts' with
          | Some (s, ts'') => Some (SCons p s, ts'')
          | None => None
          end
      | Some (p, ts') => Some (S1 p, ts')
      | None => None
      end
  end
with p_path (fuel : nat) (ts : list tok) : option (path * list tok) :=
  match fuel with
  | O => None
  | S fuel' =>
      let head := match ts with
                  | TCaret :: ts' => Some (caret_elem, ts')
                  | TDots n :: ts' => Some (EDots n, ts')
                  | _ => None
                  end in
      let body := match head with Some (_, ts') => ts' | None => ts end in
      match p_elems fuel' body with
      | Some (p, ts'') => Some (match head with Some (h, _) => PCons h p | None => p end, ts'')
      | None => match head with Some (h, ts') => Some (P1 h, ts') | None => None end
      end
  end
with p_elems (fuel : nat) (ts : list tok) : option (path * list tok) :=   (* (X '.')* X *)
  match fuel with
  | O => None
  | S fuel' =>
      match p_x fuel' ts with
      | Some (e, TDots 1 :: ts') =>
          match p_elems fuel' ts' with
          | Some (p, ts'') => Some (PCons e p, ts'')
          | None => None     (* the iteration "X ." is committed; the final X fails *)
          end
      | Some (e, ts') => Some (P1 e, ts')
      | None => None
      end
  end
with p_x (fuel : nat) (ts : list tok) : option (elem * list tok) :=      (* zero_or_more | path_element *)
  match fuel with
  | O => None
  | S fuel' =>
      match p_pe fuel' ts with
      | Some (e, TStar :: ts') => Some (star_of e, ts')
      | r => r
      end
  end
with p_pe (fuel : nat) (ts : list tok) : option (elem * list tok) :=     (* parent | brackets | navigation *)
  match fuel with
  | O => None
  | S fuel' =>
      match ts with
      | TId k :: TLP :: TId t :: TRP :: ts' =>
          if str_eqb k kw_parent then Some (EParent t, ts') else Some (ENav k true None, TLP :: TId t :: TRP :: ts')
      | TLP :: ts' =>
          match p_seq fuel' ts' with
          | Some (s, TRP :: ts'') => Some (EBr s, ts'')
          | _ => None
          end
      | TTilde :: TId n :: ts' => Some (ENav n false None, ts')
      | TId n :: ts' => Some (ENav n true None, ts')
      | TStr f _ :: TTilde :: TId n :: ts' => Some (ENav n false (Some f), ts')
      | _ => None
      end
  end.

Definition p_expr (fuel : nat) (ts : list tok) : option expr :=
  let '(fl, ts') := match ts with TFlags f :: ts' => (f, ts') | _ => ([], ts) end in
  match p_seq fuel ts' with
  | Some (s, []) => Some {| eseq := s; eflags := fl |}
  | _ => None
  end.

Definition parse_toks (ts : list tok) : option expr := p_expr (5 * length ts + 5) ts.
Definition parse (s : list N) : option expr :=
  match lex (S (length s)) s with
  | Some ts => parse_toks ts
  | None => None
  end.

(* ------------------------------------------------------------ canonical dump (shared with the harness) *)
From TxV Require Import Core.Show.
Open Scope string_scope.
Fixpoint show_elem (e : elem) : string :=
  match e with
  | EParent t => "Parent(" ++ show_str t ++ ")"
  | ENav n c f => "Nav(" ++ show_str n ++ "," ++ show_bool c ++ "," ++ show_opt show_str f ++ ")"
  | EDots n => "Dots(" ++ show_nat n ++ ")"
  | EBr s => "Br(" ++ show_seq s ++ ")"
  | EStar s => "Star(" ++ show_seq s ++ ")"
  end
with show_path (p : path) : string :=
  match p with
  | P1 e => show_elem e
  | PCons e p' => show_elem e ++ "." ++ show_path p'
  end
with show_seq (s : seq) : string :=
  match s with
  | S1 p => "[" ++ show_path p ++ "]"
  | SCons p s' => "[" ++ show_path p ++ "]" ++ show_seq s'
  end.
Definition show_expr (e : expr) : string := "E(" ++ show_str (eflags e) ++ ":" ++ show_seq (eseq e) ++ ")".
