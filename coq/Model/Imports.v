(* Model of grammar-import namespaces: textx/metamodel.py (_enter_namespace, _new_import,
   _new_class/_init_class, _cls_fqn, __getitem__) and the part of textx/lang.py that decides
   WHEN names are looked up (visit order of import statements and rule names, the second
   pass of every grammar file).  Executable model only; proofs are in Proofs/ImportsProofs.v.

   Transcription choices (validated by the correspondence of tools/props/c25.py):
   * the namespace stack of the meta-model is the call stack of nested imports
     (_enter_namespace/_leave_namespace are paired around metamodel_from_file), so the
     model passes the current namespace [ns] and its ancestors [stk] as arguments;
   * a namespace dictionary is an association list in insertion order; assignment to an
     existing key replaces in place (Python dict);
   * an exception is a sticky error in the state: every later step is a no-op.

   Facts taken from the current source on every run (Gen/SrcImports.v, tools/translate/imports_tr.py):
   the search steps of __getitem__ (lookup_steps), where a qualified name is split, whether the
   import name is normalised, whether an import is registered on every import statement, the
   import list a new namespace starts with, and the construction of _tx_fqn.  The functions
   named *_doc are the documented behaviour; Proofs/ImportsProofs.v shows that the functions
   driven by the generated facts coincide with them (an obligation that breaks when the source
   changes). *)
From TxV Require Import Core.Base Gen.SrcImports.

Definition DOT : N := 46%N.
(* "__base__" *)
Definition BASE : list N := [95;95;98;97;115;101;95;95]%N.

(* ---------------------------------------------------------------- dotted names *)
Definition has_dot (s : list N) : bool := existsb (N.eqb DOT) s.

(* Python: s.rsplit(".", 1) when "." in s  ->  Some (before last dot, after last dot) *)
Fixpoint rsplit1 (s : list N) : option (list N * list N) :=
  match s with
  | [] => None
  | c :: r =>
      match rsplit1 r with
      | Some (p, l) => Some (c :: p, l)
      | None => if N.eqb c DOT then Some ([], r) else None
      end
  end.

(* s.split(".") *)
Fixpoint split_dot (s : list N) : list (list N) :=
  match s with
  | [] => [[]]
  | c :: r =>
      if N.eqb c DOT then [] :: split_dot r
      else match split_dot r with
           | [] => [[c]]
           | x :: xs => (c :: x) :: xs
           end
  end.

Fixpoint join_dot (l : list (list N)) : list N :=
  match l with
  | [] => []
  | [x] => x
  | x :: r => x ++ DOT :: join_dot r
  end.

Definition nonempty (s : list N) : bool := match s with [] => false | _ => true end.
(* ".".join(part for part in name.split(".") if part) *)
Definition norm_dots (s : list N) : list N := join_dot (filter nonempty (split_dot s)).

(* _new_import: the import name is relative to the folder of the importing grammar *)
Definition rel_import (cur imp : list N) : list N :=
  match rsplit1 cur with
  | Some (p, _) => p ++ DOT :: imp
  | None => imp
  end.
Definition abs_import (cur imp : list N) : list N :=
  if normalise_import then norm_dots (rel_import cur imp) else rel_import cur imp.

(* as found in the source: with [main_in_root] the main grammar's own name is not parsed for a
   folder part (its file name may contain dots) *)
Definition abs_import_src (main cur imp : list N) : list N :=
  if main_in_root && str_eqb cur main then (if normalise_import then norm_dots imp else imp)
  else abs_import cur imp.

(* s.split(".", 1) when "." in s *)
Fixpoint split1 (s : list N) : option (list N * list N) :=
  match s with
  | [] => None
  | c :: r => if N.eqb c DOT then Some ([], r)
              else match split1 r with Some (p, l) => Some (c :: p, l) | None => None end
  end.

(* ---------------------------------------------------------------- association lists *)
Section Assoc.
  Context {A : Type}.
  Fixpoint aget (k : list N) (l : list (list N * A)) : option A :=
    match l with
    | [] => None
    | (k', v) :: r => if str_eqb k k' then Some v else aget k r
    end.
  (* d[k] = v *)
  Fixpoint aset (k : list N) (v : A) (l : list (list N * A)) : list (list N * A) :=
    match l with
    | [] => [(k, v)]
    | (k', v') :: r => if str_eqb k k' then (k, v) :: r else (k', v') :: aset k v r
    end.
  (* d[k] = f(d[k]) for an existing key *)
  Fixpoint aupd (k : list N) (f : A -> A) (l : list (list N * A)) : list (list N * A) :=
    match l with
    | [] => []
    | (k', v') :: r => if str_eqb k k' then (k', f v') :: r else (k', v') :: aupd k f r
    end.
  Definition akeys (l : list (list N * A)) : list (list N) := map fst l.
End Assoc.

(* ---------------------------------------------------------------- grammar files *)
(* A rule: its name, the names used as rule references / assignment right-hand sides
   (unqualified or fully qualified), and the class names of its [Class] link references. *)
Record rule := { rname : list N; rrefs : list (list N); rcrefs : list (list N) }.
(* grefs: the `reference <language> as <alias>` statements (alias, language); the model places them
   before the import statements of the file *)
Record gfile := { grefs : list (list N * list N); gimports : list (list N); grules : list rule }.
(* the folder of the main grammar: namespace name (dotted path relative to it) -> file *)
Notation fsys := (list (list N * gfile)) (only parsing).

(* ---------------------------------------------------------------- meta-model state *)
Record cls := { c_id : nat; c_ns : list N; c_name : list N }.

(* _cls_fqn, as found in the source *)
Definition fqn (c : cls) : list N :=
  if mem_str (c_ns c) fqn_bare then c_name c
  else (if fqn_ns_whole then c_ns c
        else match rsplit1 (c_ns c) with Some (_, l) => l | None => c_ns c end) ++ fqn_sep ++ c_name c.
(* the documented qualified name: file-based namespace, a dot, the rule name *)
Definition fqn_doc (c : cls) : list N :=
  if str_eqb (c_ns c) BASE then c_name c else c_ns c ++ DOT :: c_name c.

Inductive error :=
| EFileNotFound (ns : list N)
| EUnexisting (ns : list N) (names : list (list N))     (* TextXSemanticError 'Unexisting rule' *)
| EUnknownClass (ns : list N) (names : list (list N))   (* TextXSemanticError 'Unknown class/rule' *)
| EFuel.

(* one resolved reference of the second pass of grammar l_ns *)
Record link := { l_ns : list N; l_rule : list N; l_cref : bool; l_name : list N; l_target : option cls }.

Record st := {
  spaces : list (list N * list (list N * cls));   (* self.namespaces *)
  imported : list (list N * list (list N));       (* self._imported_namespaces, by namespace name *)
  created : nat;                                  (* number of classes created so far *)
  loads : list (list N);                          (* log: grammar files read, in order *)
  done : list (list N);                           (* log: grammars whose second pass finished *)
  links : list link;                              (* log: every reference resolved by a second pass *)
  backs : list (list N * list N);                 (* log: (importer, imported) where imported was still being loaded *)
  reflangs : list (list N * list N);              (* self.referenced_languages: alias -> language *)
  slangs : list (list N * list (list N));         (* registered languages: name -> rule names of its meta-model *)
  serr : option error }.

Definition has_err (s : st) : bool := match serr s with Some _ => true | None => false end.
Definition set_err (e : error) (s : st) : st :=
  {| spaces := spaces s; imported := imported s; created := created s; loads := loads s;
     done := done s; links := links s; backs := backs s; reflangs := reflangs s; slangs := slangs s; serr := Some e |}.

Definition base_names : list (list N) :=
  [ [73;68]; [83;84;82;73;78;71]; [66;79;79;76]; [73;78;84]; [70;76;79;65;84];
    [83;84;82;73;67;84;70;76;79;65;84]; [78;85;77;66;69;82]; [66;65;83;69;84;89;80;69];
    [79;66;74;69;67;84] ]%N.   (* ID STRING BOOL INT FLOAT STRICTFLOAT NUMBER BASETYPE OBJECT *)

Fixpoint number_from {A} (n : nat) (l : list A) : list (nat * A) :=
  match l with [] => [] | x :: r => (n, x) :: number_from (S n) r end.

Definition base_dict : list (list N * cls) :=
  map (fun p => (snd p, {| c_id := fst p; c_ns := BASE; c_name := snd p |})) (number_from 0 base_names).

(* TextXMetaModel.__init__ up to (not including) entering the main namespace *)
Definition init_with (langs : list (list N * list (list N))) : st :=
  {| spaces := [(BASE, base_dict)]; imported := [(BASE, initial_imports)]; created := length base_names;
     loads := []; done := []; links := []; backs := []; reflangs := []; slangs := langs; serr := None |}.
Definition init : st := init_with [].

Definition has_ns (s : st) (ns : list N) : bool :=
  match aget ns (spaces s) with Some _ => true | None => false end.

(* _enter_namespace for a namespace that does not exist yet *)
Definition enter (ns : list N) (s : st) : st :=
  {| spaces := spaces s ++ [(ns, [])]; imported := imported s ++ [(ns, initial_imports)];
     created := created s; loads := loads s; done := done s; links := links s; backs := backs s;
     reflangs := reflangs s; slangs := slangs s; serr := serr s |}.

Definition add_imported (cur a : list N) (s : st) : st :=
  {| spaces := spaces s; imported := aupd cur (fun l => l ++ [a]) (imported s);
     created := created s; loads := loads s; done := done s; links := links s; backs := backs s;
     reflangs := reflangs s; slangs := slangs s; serr := serr s |}.

Definition note_back (cur a : list N) (s : st) : st :=
  {| spaces := spaces s; imported := imported s; created := created s; loads := loads s;
     done := done s; links := links s; backs := backs s ++ [(cur, a)]; reflangs := reflangs s; slangs := slangs s; serr := serr s |}.

Definition log_load (ns : list N) (s : st) : st :=
  {| spaces := spaces s; imported := imported s; created := created s; loads := loads s ++ [ns];
     done := done s; links := links s; backs := backs s; reflangs := reflangs s; slangs := slangs s; serr := serr s |}.

Definition log_done (ns : list N) (s : st) : st :=
  {| spaces := spaces s; imported := imported s; created := created s; loads := loads s;
     done := done s ++ [ns]; links := links s; backs := backs s; reflangs := reflangs s; slangs := slangs s; serr := serr s |}.

(* visit_rule_name -> _new_class -> _init_class: a fresh class stored under its name in the
   current namespace *)
Definition new_class (ns : list N) (r : rule) (s : st) : st :=
  if has_err s then s else
  let c := {| c_id := created s; c_ns := ns; c_name := rname r |} in
  {| spaces := aupd ns (aset (rname r) c) (spaces s); imported := imported s;
     created := S (created s); loads := loads s; done := done s; links := links s; backs := backs s;
     reflangs := reflangs s; slangs := slangs s; serr := serr s |}.

(* ---------------------------------------------------------------- referenced languages *)
(* A class of the meta-model of a referenced language: namespace "@" ++ language. *)
Definition AT : N := 64%N.
Definition ext_lookup (langs : list (list N * list (list N))) (lang n : list N) : option cls :=
  match aget lang langs with
  | Some rules => if mem_str n rules then Some {| c_id := 0; c_ns := AT :: lang; c_name := n |} else None
  | None => None
  end.
(* visit_reference_stm: referenced_languages[alias] = language *)
Definition add_refs (refs : list (list N * list N)) (s : st) : st :=
  {| spaces := spaces s; imported := imported s; created := created s; loads := loads s;
     done := done s; links := links s; backs := backs s;
     reflangs := fold_left (fun d p => aset (fst p) (snd p) d) refs (reflangs s); slangs := slangs s; serr := serr s |}.
(* ---------------------------------------------------------------- __getitem__ *)
Definition lookup_in (s : st) (ns name : list N) : option cls :=
  match aget ns (spaces s) with Some d => aget name d | None => None end.

Fixpoint first_def (s : st) (nss : list (list N)) (name : list N) : option cls :=
  match nss with
  | [] => None
  | n :: r => match lookup_in s n name with Some c => Some c | None => first_def s r name end
  end.

Definition imports_of (s : st) (cur : list N) : list (list N) :=
  match aget cur (imported s) with Some l => l | None => [] end.

(* the qualified branch of __getitem__: an alias of a referenced language first, otherwise a
   grammar-file namespace *)
Definition lookup_qual (s : st) (q n : list N) : option cls :=
  match aget q (reflangs s) with
  | Some lang => ext_lookup (slangs s) lang n
  | None => lookup_in s q n
  end.

(* the documented look-up *)
Definition lookup_doc (s : st) (cur name : list N) : option cls :=
  match rsplit1 name with
  | Some (q, n) => lookup_qual s q n
  | None => match lookup_in s cur name with
            | Some c => Some c
            | None => first_def s (imports_of s cur) name
            end
  end.

(* the look-up as found in the source: the generated search steps, in their order *)
Fixpoint run_steps (steps : list lstep) (s : st) (cur name : list N) : option cls :=
  match steps with
  | [] => None
  | st1 :: rest =>
      let r := match st1 with
               | LCurrent => lookup_in s cur name
               | LBase => lookup_in s BASE name
               | LImports rv skip =>
                   let l := skipn skip (imports_of s cur) in
                   first_def s (if rv then rev l else l) name
               end in
      match r with Some c => Some c | None => run_steps rest s cur name end
  end.

Definition lookup (s : st) (cur name : list N) : option cls :=
  match (if qualified_split_last then rsplit1 name else split1 name) with
  | Some (q, n) => lookup_qual s q n
  | None => run_steps lookup_steps s cur name
  end.

(* ---------------------------------------------------------------- second pass *)
Definition links_of_rule (s : st) (ns : list N) (r : rule) : list link :=
  map (fun n => {| l_ns := ns; l_rule := rname r; l_cref := false; l_name := n; l_target := lookup s ns n |}) (rrefs r)
  ++ map (fun n => {| l_ns := ns; l_rule := rname r; l_cref := true; l_name := n; l_target := lookup s ns n |}) (rcrefs r).

Definition unresolved (cref : bool) (ls : list link) : list (list N) :=
  map l_name (filter (fun l => Bool.eqb (l_cref l) cref && match l_target l with None => true | Some _ => false end) ls).

Definition add_links (ls : list link) (s : st) : st :=
  {| spaces := spaces s; imported := imported s; created := created s; loads := loads s;
     done := done s; links := links s ++ ls; backs := backs s; reflangs := reflangs s; slangs := slangs s; serr := serr s |}.

(* second_textx_model of the grammar in namespace ns: _resolve_rule_refs (raises on the first
   unknown rule), then _resolve_cls_refs (raises on the first unknown class) *)
Definition second_pass (ns : list N) (f : gfile) (s : st) : st :=
  if has_err s then s else
  let ls := flat_map (links_of_rule s ns) (grules f) in
  match unresolved false ls with
  | (_ :: _) as bad => set_err (EUnexisting ns bad) s
  | [] =>
      match unresolved true ls with
      | (_ :: _) as bad => set_err (EUnknownClass ns bad) s
      | [] => log_done ns (add_links ls s)
      end
  end.

(* ---------------------------------------------------------------- loading *)
(* _new_import inside the grammar [cur] whose ancestors (namespace stack) are [stk] *)
Definition new_import_doc (rec : list N -> st -> st) (stk : list (list N)) (cur imp : list N) (s : st) : st :=
  if has_err s then s else
  let a := abs_import cur imp in
  let s1 := if has_ns s a
            then (if mem_str a stk then note_back cur a s else s)
            else rec a (enter a s) in
  if has_err s1 then s1 else add_imported cur a s1.

(* as found in the source: the import is registered on every import statement, or (if the
   source only does it inside the load-once guard) only when the file is actually loaded *)
Definition nop_eqb (a b : nop) : bool :=
  match a, b with NEnter, NEnter | NLoad, NLoad | NLeave, NLeave => true | _, _ => false end.
Fixpoint nops_eqb (a b : list nop) : bool :=
  match a, b with
  | [], [] => true
  | x :: a', y :: b' => nop_eqb x y && nops_eqb a' b'
  | _, _ => false
  end.
(* the namespace stack discipline of the source around the nested load: enter, load, leave.
   The model represents the stack by the nesting of loads, which is only right for that
   discipline; any other statement list found in the source is outside the model. *)
Definition stack_balanced : bool := nops_eqb nested_ops [NEnter; NLoad; NLeave].

Definition new_import (main : list N) (rec : list N -> st -> st) (stk : list (list N)) (cur imp : list N) (s : st) : st :=
  if negb stack_balanced then (if has_err s then s else set_err EFuel s) else
  if has_err s then s else
  let a := abs_import_src main cur imp in
  if has_ns s a
  then (let s1 := if mem_str a stk then note_back cur a s else s in
        if register_import_always then add_imported cur a s1 else s1)
  else let s1 := rec a (enter a s) in if has_err s1 then s1 else add_imported cur a s1.

(* language_from_str for the grammar file of namespace ns (already entered):
   import statements first (each loads its file completely, both passes), then the rule
   names of this file, then this file's second pass. *)
Fixpoint load_doc (fuel : nat) (fs : fsys) (stk : list (list N)) (ns : list N) (s : st) : st :=
  if has_err s then s else
  match aget ns fs with
  | None => set_err (EFileNotFound ns) s
  | Some f =>
      match fuel with
      | O => set_err EFuel s
      | S fuel' =>
          let s0 := log_load ns s in
          let s1 := fold_left (fun s imp => new_import_doc (load_doc fuel' fs (ns :: stk)) (ns :: stk) ns imp s)
                              (gimports f) s0 in
          let s2 := fold_left (fun s r => new_class ns r s) (grules f) s1 in
          second_pass ns f s2
      end
  end.

(* The same driven by the facts found in the source: the order in which the import statements
   are visited, and whether the second pass of a grammar runs before its load returns (i.e.,
   for an imported grammar, inside _new_import, before the importer continues) or is deferred
   until every file has been visited. *)
Fixpoint load (main : list N) (fuel : nat) (fs : fsys) (stk : list (list N)) (ns : list N) (s : st) : st :=
  if has_err s then s else
  match aget ns fs with
  | None => set_err (EFileNotFound ns) s
  | Some f =>
      match fuel with
      | O => set_err EFuel s
      | S fuel' =>
          let s0 := add_refs (grefs f) (log_load ns s) in
          let s1 := fold_left (fun s imp => new_import main (load main fuel' fs (ns :: stk)) (ns :: stk) ns imp s)
                              (if imports_in_text_order then gimports f else rev (gimports f)) s0 in
          let s2 := fold_left (fun s r => new_class ns r s) (grules f) s1 in
          if second_pass_inside_import then second_pass ns f s2 else s2
      end
  end.

Definition deferred_passes (fs : fsys) (s : st) : st :=
  fold_left (fun s ns => match aget ns fs with Some f => second_pass ns f s | None => s end) (loads s) s.

(* metamodel_from_file(main) *)
Definition load_main_doc (fs : fsys) (main : list N) : st :=
  load_doc (S (length fs)) fs [] main (enter main init).
Definition load_main_with (langs : list (list N * list (list N))) (fs : fsys) (main : list N) : st :=
  let s := load main (S (length fs)) fs [] main (enter main (init_with langs)) in
  if second_pass_inside_import then s else deferred_passes fs s.
Definition load_main (fs : fsys) (main : list N) : st := load_main_with [] fs main.

(* no grammar file has a `reference` statement *)
Definition no_refs (fs : fsys) : Prop := forall ns f, aget ns fs = Some f -> grefs f = [].

(* ---------------------------------------------------------------- the documented resolution *)
Definition defines (fs : fsys) (ns name : list N) : bool :=
  match aget ns fs with
  | Some f => mem_str name (map rname (grules f))
  | None => false
  end.

Definition is_base (name : list N) : bool := mem_str name base_names.

Fixpoint first_defining (fs : fsys) (nss : list (list N)) (name : list N) : option (list N) :=
  match nss with
  | [] => None
  | n :: r => if defines fs n name then Some n else first_defining fs r name
  end.

Definition abs_imports (fs : fsys) (cur : list N) : list (list N) :=
  match aget cur fs with Some f => map (abs_import cur) (gimports f) | None => [] end.

(* (namespace, rule name) a name written in grammar [cur] stands for: the rule of the current
   file if it defines one, otherwise a built-in type, otherwise the first imported file in
   import order that defines it; a qualified name selects the named file's rule. *)
Definition spec_resolve (fs : fsys) (cur name : list N) : option (list N * list N) :=
  match rsplit1 name with
  | Some (q, n) => if defines fs q n then Some (q, n)
                   else if str_eqb q BASE && is_base n then Some (BASE, n) else None
  | None =>
      if defines fs cur name then Some (cur, name)
      else if is_base name then Some (BASE, name)
      else match first_defining fs (abs_imports fs cur) name with
           | Some i => Some (i, name)
           | None => None
           end
  end.

Definition cls_key (c : cls) : list N * list N := (c_ns c, c_name c).

(* a recorded reference agrees with the documented resolution *)
Definition link_ok (fs : fsys) (l : link) : Prop :=
  option_map cls_key (l_target l) = spec_resolve fs (l_ns l) (l_name l).

(* witnesses of the known finding (corpus/C25/cycle_silent.json, cycle_unexisting.json) *)
Definition ex_rule (n : list N) (refs : list (list N)) : rule := {| rname := n; rrefs := refs; rcrefs := [] |}.
Definition ex_silent : fsys :=
  [ ([97], {| grefs := []; gimports := [[98]]; grules := [ex_rule [77] [[88]; [89]]; ex_rule [88] []] |});
    ([98], {| grefs := []; gimports := [[97]; [99]]; grules := [ex_rule [89] [[88]]] |});
    ([99], {| grefs := []; gimports := []; grules := [ex_rule [88] []] |}) ]%N.
Definition ex_unexisting : fsys :=
  [ ([97], {| grefs := []; gimports := [[98]]; grules := [ex_rule [77] [[88]; [89]]; ex_rule [88] []] |});
    ([98], {| grefs := []; gimports := [[97]]; grules := [ex_rule [89] [[88]]] |}) ]%N.

(* a diamond: a imports b, c; both import d; overlapping rule names; one qualified reference *)
Definition ex_diamond : fsys :=
  [ ([97], {| grefs := []; gimports := [[98]; [99]]; grules := [ex_rule [77] [[88]; [89]; [87]; [99;46;87]]; ex_rule [89] []] |});
    ([98], {| grefs := []; gimports := [[100]]; grules := [ex_rule [88] [[87]]; ex_rule [89] []] |});
    ([99], {| grefs := []; gimports := [[100]]; grules := [ex_rule [89] [[87]]; ex_rule [87] []] |});
    ([100], {| grefs := []; gimports := []; grules := [ex_rule [87] []; ex_rule [88] []] |}) ]%N.

(* number of rules of the grammar file of a namespace / of a list of namespaces *)
Definition nrules (fs : fsys) (ns : list N) : nat :=
  match aget ns fs with Some f => length (grules f) | None => 0 end.
Definition nrules_of (fs : fsys) (l : list (list N)) : nat := list_sum (map (nrules fs) l).

(* ---------------------------------------------------------------- harmless import cycles *)
(* every name written in a grammar file (rule references and [Class] links) *)
Definition file_names (f : gfile) : list (list N) := flat_map (fun r => rrefs r ++ rcrefs r) (grules f).

(* An import of a grammar that is still being loaded, (importer, imported), is harmless when no
   unqualified name of the importer could be meant for the imported grammar: each such name is
   defined by the importer itself, is a built-in, or is not defined by the imported grammar. *)
Definition safe_back (fs : fsys) (p : list N * list N) : bool :=
  match aget (fst p) fs with
  | None => true
  | Some f => forallb (fun n => has_dot n || defines fs (fst p) n || is_base n || negb (defines fs (snd p) n))
                      (file_names f)
  end.
Definition safe (fs : fsys) (s : st) : bool := forallb (safe_back fs) (backs s).

(* a harmless cycle: a imports b and itself; b imports a back but only uses its own rules and built-ins *)
Definition ex_harmless : fsys :=
  [ ([97], {| grefs := []; gimports := [[98]; [97]]; grules := [ex_rule [77] [[88]; [89]]; ex_rule [88] []] |});
    ([98], {| grefs := []; gimports := [[97]]; grules := [ex_rule [89] [[89]; [73;78;84]]] |}) ]%N.
