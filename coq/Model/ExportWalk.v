(* Executable model of the traversal of model_export_to_file (_export) for a single model without a
   repository: objects are numbered, attribute values are dumped by the harness.  Transcribes the code after the
   escaping repair: name through dot_escape, strings through dot_repr, primitive members of mixed lists
   through dot_escape.  No proofs here. *)
From TxV Require Import Core.Base Model.ExportDefs Gen.SrcExport Model.Export.

Fixpoint uint_codes (u : Decimal.uint) : list N :=
  match u with
  | Decimal.Nil => []
  | Decimal.D0 u => 48%N :: uint_codes u | Decimal.D1 u => 49%N :: uint_codes u
  | Decimal.D2 u => 50%N :: uint_codes u | Decimal.D3 u => 51%N :: uint_codes u
  | Decimal.D4 u => 52%N :: uint_codes u | Decimal.D5 u => 53%N :: uint_codes u
  | Decimal.D6 u => 54%N :: uint_codes u | Decimal.D7 u => 55%N :: uint_codes u
  | Decimal.D8 u => 56%N :: uint_codes u | Decimal.D9 u => 57%N :: uint_codes u
  end.
Definition dec_N (n : N) : list N := uint_codes (N.to_uint n).

Inductive prim := PStr (s : list N) | POther (ty text : list N).     (* a str / an int, float or bool with str() *)
Inductive item := INone | IPrim (p : prim) | IObj (k : nat).
Inductive aval := VNone | VPrim (p : prim) | VObj (k : nat) | VList (l : list item).
Record attr := mkAttr { a_name : list N; a_cont : bool; a_req : bool; a_list : bool; a_val : aval }.
Record obj := mkObj { o_cls : list N; o_attrs : list attr }.

Definition prim_text (p : prim) : list N := match p with PStr s => s | POther _ t => t end.
Definition prim_type (p : prim) : list N := match p with PStr _ => [115; 116; 114]%N | POther ty _ => ty end.
Definition prim_repr (p : prim) : list N := match p with PStr s => dot_repr_str s | POther _ t => t end.
Definition is_prim_item (i : item) : bool := match i with IPrim _ => true | _ => false end.

Definition id_base : N := 7000000%N.
Definition idtext (k : nat) : list N := dec_N (id_base + N.of_nat k).
Definition endmark (cont : bool) : list N :=
  if cont then [97;114;114;111;119;116;97;105;108;61;100;105;97;109;111;110;100;32;100;105;114;61;98;111;116;104]%N else [].
Definition required (req : bool) : list N := if req then [43%N] else [].
Definition s_arrow : list N := [32; 45; 62; 32]%N.                       (* space arrow space *)
Definition s_label : list N := [91; 108; 97; 98; 101; 108; 61; 34]%N.      (* open bracket, label=, quote *)
Definition name_attr : list N := [110; 97; 109; 101]%N.

Fixpoint join (sep : list N) (l : list (list N)) : list N :=
  match l with
  | [] => []
  | [x] => x
  | x :: l' => x ++ sep ++ join sep l'
  end.

Definition edge_text (src : nat) (dst label : list N) (cont : bool) : list N :=
  idtext src ++ s_arrow ++ dst ++ [32%N] ++ s_label ++ label ++ [34; 32]%N ++ endmark cont ++ [93; 10]%N.
Definition edge_prim_text (src : nat) (p : prim) (label : list N) (cont : bool) : list N :=
  idtext src ++ s_arrow ++ [34%N] ++ dot_escape (prim_text p) ++ [58%N] ++ prim_type p ++ [34%N]
  ++ [32%N] ++ s_label ++ label ++ [34; 32]%N ++ endmark cont ++ [93; 10]%N.

(* an output statement: its text, tagged with the object number when it is the node statement of an object *)
Definition stmt := (option nat * list N)%type.
Definition wacc := (list stmt * list nat)%type.                      (* statements written so far, processed set *)
Definition wstate := (wacc * (list N * list N))%type.               (* ... and name, attrs of the object being exported *)

Definition put (acc : wacc) (s : stmt) : wacc := (fst acc ++ [s], snd acc).

(* one member of a list that is not all primitives; rec = _export on an object number *)
Definition items_step (rec : nat -> wacc -> wacc) (k : nat) (a : attr) (s : wacc * nat) (i : item) : wacc * nat :=
  let '(acc, idx) := s in
  let label := a_name a ++ [58%N] ++ dec_N (N.of_nat idx) in
  match i with
  | INone => (acc, S idx)
  | IPrim p => (put acc (None, edge_prim_text k p label (a_cont a)), S idx)
  | IObj j => (rec j (put acc (None, edge_text k (idtext j) label (a_cont a))), S idx)
  end.

(* one attribute of object k *)
Definition attr_step (rec : nat -> wacc -> wacc) (k : nat) (s : wstate) (a : attr) : wstate :=
  let '(acc, (name, attrs)) := s in
  match a_val a with
  | VNone => s
  | VList l =>
      if a_list a then
        if forallb is_prim_item l
        then (acc, (name, attrs ++ required (a_req a) ++ a_name a ++ [58;108;105;115;116;61;91]%N
                          ++ join [44%N] (map (fun i => match i with IPrim p => prim_repr p | _ => [] end) l) ++ [93; 92; 108]%N))
        else (fst (fold_left (items_step rec k a) l (acc, O)), (name, attrs))
      else s
  | VPrim p =>
      if a_list a then s else
      if str_eqb (a_name a) name_attr then (acc, (dot_escape (prim_text p), attrs))
      else (acc, (name, attrs ++ required (a_req a) ++ a_name a ++ [58%N] ++ prim_type p ++ [61%N] ++ prim_repr p ++ [92; 108]%N))
  | VObj j =>
      if a_list a then s else
      (rec j (put acc (None, edge_text k (idtext j) (a_name a) (a_cont a))), (name, attrs))
  end.

Definition node_text (k : nat) (name cls attrs : list N) : list N :=
  idtext k ++ s_label ++ [123%N] ++ name ++ [58%N] ++ cls ++ [124%N] ++ attrs ++ [125; 34; 93; 10]%N.

Section Walk.
  Variable st : list obj.

  Fixpoint export (fuel : nat) (k : nat) (acc : wacc) : wacc :=
    match fuel with
    | O => acc
    | S f =>
      if existsb (Nat.eqb k) (snd acc) then acc else
      match nth_error st k with
      | None => acc
      | Some o =>
        let '(acc1, (name, attrs)) := fold_left (attr_step (export f) k) (o_attrs o) ((fst acc, k :: snd acc), ([], [])) in
        put acc1 (Some k, node_text k name (o_cls o) attrs)
      end
    end.

  Definition export_stmts (root : nat) : list stmt := fst (export (S (length st)) root ([], [])).
  Definition node_ids (l : list stmt) : list nat :=
    flat_map (fun s => match fst s with Some k => [k] | None => [] end) l.

  Definition export_doc (header : list N) (root : nat) : list N :=
    header ++ flat_map snd (export_stmts root) ++ [10; 125; 10]%N.
End Walk.

(* ---- what "reachable through attributes" means for a dumped store, and the traversal reduced to object numbers *)
Definition item_objs (l : list item) : list nat := flat_map (fun i => match i with IObj j => [j] | _ => [] end) l.
Definition attr_targets (a : attr) : list nat :=
  match a_val a with
  | VObj j => if a_list a then [] else [j]
  | VList l => if a_list a then item_objs l else []
  | _ => []
  end.
Definition targets (o : obj) : list nat := flat_map attr_targets (o_attrs o).

Definition edge (st : list obj) (k j : nat) : Prop :=
  exists o, nth_error st k = Some o /\ In j (targets o) /\ j < length st.
Inductive reach (st : list obj) (root : nat) : nat -> Prop :=
| reach_root : reach st root root
| reach_step j l : reach st root j -> edge st j l -> reach st root l.

Section Visit.
  Variable st : list obj.
  (* (processed set, objects whose node statement is written, in order) *)
  Fixpoint visit (fuel : nat) (k : nat) (sn : list nat * list nat) : list nat * list nat :=
    match fuel with
    | O => sn
    | S f =>
      if existsb (Nat.eqb k) (fst sn) then sn else
      match nth_error st k with
      | None => sn
      | Some o =>
        let sn' := fold_left (fun sn j => visit f j sn) (targets o) (k :: fst sn, snd sn) in
        (fst sn', snd sn' ++ [k])
      end
    end.
End Visit.

(* ---- the repository path of model_export_to_file: for every model of the repository a subgraph block listing the
   model and its contained children (textx.get_children: containment only, parents first), then _export of the model,
   all with one processed set *)
Section Repo.
  Variable st : list obj.

  Fixpoint children (fuel : nat) (k : nat) (acc : list nat) : list nat :=
    match fuel with
    | O => acc
    | S f =>
      if existsb (Nat.eqb k) acc then acc else
      match nth_error st k with
      | None => acc
      | Some o =>
        fold_left (fun acc a =>
                     if a_cont a then
                       match a_val a with
                       | VObj j => if a_list a then acc else children f j acc
                       | VList l => if a_list a
                                    then fold_left (fun acc i => match i with IObj j => children f j acc | _ => acc end) l acc
                                    else acc
                       | _ => acc
                       end
                     else acc) (o_attrs o) (acc ++ [k])
      end
    end.

  Definition sp8 : list N := [32; 32; 32; 32; 32; 32; 32; 32]%N.
  Definition subgraph_stmts (k : nat) (fname : list N) : list stmt :=
    let fn := dot_escape fname in
    [(None, [115;117;98;103;114;97;112;104;32;34;99;108;117;115;116;101;114;95]%N ++ fn ++ [34; 32; 123; 10]%N);
     (None, [10%N] ++ sp8 ++ [112;101;110;119;105;100;116;104;61;50;46;48;10]%N
            ++ sp8 ++ [99;111;108;111;114;61;100;97;114;107;111;114;97;110;103;101;52;59;10]%N
            ++ sp8 ++ [108;97;98;101;108;32;61;32;34]%N ++ fn ++ [34; 59; 10]%N ++ sp8 ++ sp8 ++ [32; 32; 32; 32]%N)]
    ++ map (fun j => (None, idtext j ++ [59; 10]%N)) (children (S (length st)) k [])
    ++ [(None, [10; 125; 10]%N)].

  Definition export_repo (roots : list (nat * list N)) : wacc :=
    fold_left (fun acc r => export st (S (length st)) (fst r) (fst acc ++ subgraph_stmts (fst r) (snd r), snd acc)) roots ([], []).

  Definition export_repo_doc (header : list N) (roots : list (nat * list N)) : list N :=
    header ++ flat_map snd (fst (export_repo roots)) ++ [10; 125; 10]%N.
End Repo.
