(* Proc — executable model of textx/model.py `call_obj_processors` (the depth-first object
   processor walk run at the end of a load) and of the phase order of a load.
   Definitions only; proofs are in Proofs/ProcProofs.v.

   Objects.  A model object is `VObj id cls fields`: `id` stands for the Python identity,
   `cls` for the object's own meta-class (`metamodel[obj._tx_fqn]`), `fields` for the
   attributes in `_tx_attrs.values()` order, each with the meta-attribute data the walk reads
   (`cont`, the declared class `metaattr.cls` and whether that class is a match rule) and its
   current value (`FOne`: not a list; `FMany`: a list).  `VAtom k` is any value whose class name
   is not a meta-class of the meta-model (str/int/float/bool produced by match rules, values
   returned by processors, targets of non-containment references; k indexes a table of such
   values kept by the harness);
   `VNone` is Python's None.

   Classes are referred to by (namespace, simple name): `_tx_fqn` equality is equality of
   both, whereas processors are registered and looked up by the SIMPLE NAME only
   (`metamodel.has_obj_processor(cls.__name__)`). *)
From TxV Require Import Core.Base.

Record cref := CRef { c_ns : nat; c_nm : nat }.

Definition fqn_eqb (a b : cref) : bool :=
  Nat.eqb (c_ns a) (c_ns b) && Nat.eqb (c_nm a) (c_nm b).

(* declared class of an attribute (or the class a root object is looked up under):
   the class and `_tx_type is RULE_MATCH` *)
Record dcl := Dcl { d_cls : cref; d_match : bool }.

Inductive value :=
| VNone
| VAtom (a : nat)
| VObj (id : nat) (c : cref) (fs : fields)
with fields :=
| FNil
| FOne (n : nat) (cont : bool) (d : dcl) (v : value) (rest : fields)
| FMany (n : nat) (cont : bool) (d : dcl) (vs : values) (rest : fields)
with values :=
| VsNil
| VsCons (v : value) (vs : values).

(* one processor call: (simple name the processor is registered under, the argument as it
   is at the time of the call) *)
Notation event := (nat * value)%type (only parsing).

Definition is_none (v : value) : bool := match v with VNone => true | _ => false end.

Definition d_nm (d : dcl) : nat := c_nm (d_cls d).

(* ---------------------------------------------------------------- facts read from the source *)
(* What tools/translate/proc_tr.py extracts from the text of call_obj_processors
   (Gen/SrcProc.v `src_facts`); `walk` below is instantiated by them, so every theorem about
   `walk src_facts` is re-proved against the current source. *)
Inductive rtest := TNotNone | TTruthy | TAlways.   (* `x is not None` | `x` | no test *)
Inductive wstep := WChildren | WOwn | WDecl.        (* attribute loop | own-class call | declared-class call *)
Inductive retpol := ROwnFirst | RDeclFirst           (* which non-None result is returned *)
                | ROwnTruthy | RDeclTruthy.        (* `return a or b` *)

Record walk_facts := WF {
  wf_match_skip : bool;      (* `if metaclass_of_grammar_rule._tx_type is RULE_MATCH: return` is there *)
  wf_only_cont : bool;       (* the attribute loop is guarded by `if metaattr.cont:` *)
  wf_attr_test : rtest;      (* `if attr is not None:` *)
  wf_elem_test : rtest;      (* `if obj is not None:` for list elements *)
  wf_repl_single : rtest;    (* `if result is not None: setattr(...)` *)
  wf_repl_list : rtest;      (* `if result is not None: attr[idx] = result` *)
  wf_order : list wstep;     (* textual (= execution) order of the three blocks *)
  wf_own_fqn : bool;         (* own-class call requires `_tx_fqn` to differ *)
  wf_own_name : bool;        (* ... and the simple names to differ (fix 68837ab) *)
  wf_ret : retpol            (* `if return_value_current is not None: return it, else the grammar one` *)
}.

(* the behaviour the specification below describes *)
Definition std_facts : walk_facts :=
  WF true true TNotNone TNotNone TNotNone TNotNone [WChildren; WOwn; WDecl] true true ROwnFirst.

Definition rtest_eqb (a b : rtest) : bool :=
  match a, b with TNotNone, TNotNone | TTruthy, TTruthy | TAlways, TAlways => true | _, _ => false end.
Definition wstep_eqb (a b : wstep) : bool :=
  match a, b with WChildren, WChildren | WOwn, WOwn | WDecl, WDecl => true | _, _ => false end.
Fixpoint wsteps_eqb (a b : list wstep) : bool :=
  match a, b with
  | [], [] => true
  | x :: a', y :: b' => wstep_eqb x y && wsteps_eqb a' b'
  | _, _ => false
  end.
Definition retpol_eqb (a b : retpol) : bool :=
  match a, b with
  | ROwnFirst, ROwnFirst | RDeclFirst, RDeclFirst | ROwnTruthy, ROwnTruthy | RDeclTruthy, RDeclTruthy => true
  | _, _ => false
  end.

Definition facts_ok (F : walk_facts) : bool :=
  Bool.eqb (wf_match_skip F) true && Bool.eqb (wf_only_cont F) true &&
  rtest_eqb (wf_attr_test F) TNotNone && rtest_eqb (wf_elem_test F) TNotNone &&
  rtest_eqb (wf_repl_single F) TNotNone && rtest_eqb (wf_repl_list F) TNotNone &&
  wsteps_eqb (wf_order F) [WChildren; WOwn; WDecl] &&
  Bool.eqb (wf_own_fqn F) true && Bool.eqb (wf_own_name F) true && retpol_eqb (wf_ret F) ROwnFirst.

Section Walk.
  (* `F`       : the facts above
     `reg n`   : metamodel.has_obj_processor(n)
     `proc n v`: the value returned by the processor registered under n when called on v
                 (None = Python None).  Processors are external: any function.
     `truthy v`: Python truthiness of v (only consulted when a fact says `TTruthy`). *)
  Variable F : walk_facts.
  Variable reg : nat -> bool.
  Variable proc : nat -> value -> option value.
  Variable truthy : value -> bool.

  Definition vtest (t : rtest) (v : value) : bool :=
    match t with TNotNone => negb (is_none v) | TTruthy => truthy v | TAlways => true end.
  Definition ltest (t : rtest) (vs : values) : bool :=     (* the same test on a list value *)
    match t with TTruthy => match vs with VsNil => false | _ => true end | _ => true end.
  (* `if <test on result>: slot = result` *)
  Definition repl (t : rtest) (r : option value) (cur : value) : value :=
    match r with
    | Some x => match t with TTruthy => if truthy x then x else cur | _ => x end
    | None => match t with TAlways => VNone | _ => cur end
    end.
  Definition own_called_f (c : cref) (d : dcl) : bool :=
    (if wf_own_fqn F then negb (fqn_eqb c (d_cls d)) else true) &&
    (if wf_own_name F then negb (Nat.eqb (c_nm c) (d_nm d)) else true) && reg (c_nm c).
  Definition pick (rc rg : option value) : option value :=
    match wf_ret F with
    | ROwnFirst => match rc with Some r => Some r | None => rg end
    | RDeclFirst => match rg with Some r => Some r | None => rc end
    | ROwnTruthy => match rc with Some r => if truthy r then Some r else rg | None => rg end
    | RDeclTruthy => match rg with Some r => if truthy r then Some r else rc | None => rc end
    end.

  (* State-passing transcription: `log` is the list of calls made so far (Python appends). *)
  Fixpoint walk (d : dcl) (v : value) (log : list event) {struct v}
    : list event * value * option value :=
    if wf_match_skip F && d_match d then (log, v, None)     (* RULE_MATCH: return *)
    else
      match v with
      | VObj id c fs =>                                     (* class name in metamodel *)
          (* the three blocks in source order; `cur` are the attributes as they are now *)
          let fix run (steps : list wstep) (lg : list event) (cur : fields)
                      (rc rg : option value) {struct steps} : list event * value * option value :=
            match steps with
            | [] => (lg, VObj id c cur, pick rc rg)
            | WChildren :: steps' =>
                let '(lg', fs') := walk_fields fs lg in run steps' lg' fs' rc rg
            | WOwn :: steps' =>
                if own_called_f c d
                then run steps' (lg ++ [(c_nm c, VObj id c cur)]) cur (proc (c_nm c) (VObj id c cur)) rg
                else run steps' lg cur rc rg
            | WDecl :: steps' =>
                if reg (d_nm d)
                then run steps' (lg ++ [(d_nm d, VObj id c cur)]) cur rc (proc (d_nm d) (VObj id c cur))
                else run steps' lg cur rc rg
            end in
          run (wf_order F) log fs None None
      | _ =>                                                (* not an instance of a meta-class *)
          if reg (d_nm d) then (log ++ [(d_nm d, v)], v, pick None (proc (d_nm d) v))
          else (log, v, pick None None)
      end
  with walk_fields (fs : fields) (log : list event) {struct fs} : list event * fields :=
    match fs with
    | FNil => (log, FNil)
    | FOne n cont d v rest =>
        if (if wf_only_cont F then cont else true) && vtest (wf_attr_test F) v then
          let '(log1, v', r) := walk d v log in
          let '(log2, rest') := walk_fields rest log1 in
          (log2, FOne n cont d (repl (wf_repl_single F) r v') rest')
        else
          let '(log2, rest') := walk_fields rest log in (log2, FOne n cont d v rest')
    | FMany n cont d vs rest =>
        if (if wf_only_cont F then cont else true) && ltest (wf_attr_test F) vs then
          let '(log1, vs') := walk_values d vs log in
          let '(log2, rest') := walk_fields rest log1 in
          (log2, FMany n cont d vs' rest')
        else
          let '(log2, rest') := walk_fields rest log in (log2, FMany n cont d vs rest')
    end
  with walk_values (d : dcl) (vs : values) (log : list event) {struct vs} : list event * values :=
    match vs with
    | VsNil => (log, VsNil)
    | VsCons v vs0 =>
        if vtest (wf_elem_test F) v then
          let '(log1, v', r) := walk d v log in
          let '(log2, vs') := walk_values d vs0 log1 in
          (log2, VsCons (repl (wf_repl_list F) r v') vs')       (* attr[idx] = result *)
        else
          let '(log2, vs') := walk_values d vs0 log in (log2, VsCons v vs')
    end.

  (* `call_obj_processors(m._tx_metamodel, m)`: the root is looked up under
     `metamodel[type(m).__name__]` (given as `d`); the returned value is discarded. *)
  Definition walk_root (d : dcl) (v : value) : list event * value :=
    let '(log, v', _) := walk d v [] in (log, v').
End Walk.

Section Spec.
  Variable reg : nat -> bool.
  Variable proc : nat -> value -> option value.

  (* the processor of the object's own class is called when that class is not the declared one
     (compared by _tx_fqn), is not registered under the same simple name as the declared one
     (it would be the same processor, called twice), and has a processor *)
  Definition own_called (c : cref) (d : dcl) : bool :=
    negb (fqn_eqb c (d_cls d)) && negb (Nat.eqb (c_nm c) (d_nm d)) && reg (c_nm c).

  (* ------------------------------------------------------------------ specification *)
  (* declarative description, written without a log accumulator *)

  (* the return value that decides a slot: the own-class processor dominates *)
  Definition result (d : dcl) (v : value) : option value :=
    let rc := match v with
              | VObj _ c _ => if own_called c d then proc (c_nm c) v else None
              | _ => None
              end in
    match rc with
    | Some r => Some r
    | None => if reg (d_nm d) then proc (d_nm d) v else None
    end.

  (* `after d v`: v once everything below it has been processed (v itself is never replaced
     here; its slots are settled).  `settle d v`: final content of a containment slot declared
     with d that held v. *)
  Fixpoint after (d : dcl) (v : value) {struct v} : value :=
    if d_match d then v
    else match v with
         | VObj id c fs => VObj id c (after_fields fs)
         | _ => v
         end
  with after_fields (fs : fields) {struct fs} : fields :=
    match fs with
    | FNil => FNil
    | FOne n cont d v rest =>
        FOne n cont d
          (if cont then
             match v with
             | VNone => VNone
             | _ => if d_match d then v
                    else match result d (after d v) with Some r => r | None => after d v end
             end
           else v)
          (after_fields rest)
    | FMany n cont d vs rest =>
        FMany n cont d (if cont then after_values d vs else vs) (after_fields rest)
    end
  with after_values (d : dcl) (vs : values) {struct vs} : values :=
    match vs with
    | VsNil => VsNil
    | VsCons v vs0 =>
        VsCons
          (match v with
           | VNone => VNone
           | _ => if d_match d then v
                  else match result d (after d v) with Some r => r | None => after d v end
           end)
          (after_values d vs0)
    end.

  Definition settle (d : dcl) (v : value) : value :=
    match v with
    | VNone => VNone
    | _ => if d_match d then v
           else match result d (after d v) with Some r => r | None => after d v end
    end.

  (* post-order list of visits: (declared class, the value as it is when its processors run) *)
  Fixpoint visits (d : dcl) (v : value) {struct v} : list (dcl * value) :=
    if d_match d then []
    else match v with
         | VObj id c fs => visits_fields fs ++ [(d, VObj id c (after_fields fs))]
         | _ => [(d, v)]
         end
  with visits_fields (fs : fields) {struct fs} : list (dcl * value) :=
    match fs with
    | FNil => []
    | FOne n cont d v rest =>
        (if cont then match v with VNone => [] | _ => visits d v end else []) ++ visits_fields rest
    | FMany n cont d vs rest =>
        (if cont then visits_values d vs else []) ++ visits_fields rest
    end
  with visits_values (d : dcl) (vs : values) {struct vs} : list (dcl * value) :=
    match vs with
    | VsNil => []
    | VsCons v vs0 =>
        (match v with VNone => [] | _ => visits d v end) ++ visits_values d vs0
    end.

  (* the calls made for one visit: own class first (if it differs), then the declared class *)
  Definition events (x : dcl * value) : list event :=
    let '(d, v) := x in
    match v with
    | VObj _ c _ => if own_called c d then [(c_nm c, v)] else []
    | _ => []
    end ++ (if reg (d_nm d) then [(d_nm d, v)] else []).

  Definition schedule (d : dcl) (v : value) : list event := flat_map events (visits d v).
End Spec.

(* ---------------------------------------------------------------- tree vocabulary *)
(* independent of processors: which objects a tree contains (through containment attributes
   whose declared class is not a match rule), in post order *)

Definition vid (v : value) : option nat := match v with VObj id _ _ => Some id | _ => None end.
Definition vcls (v : value) : option cref := match v with VObj _ c _ => Some c | _ => None end.

Fixpoint nodes (d : dcl) (v : value) {struct v} : list (dcl * value) :=
  if d_match d then []
  else match v with
       | VObj id c fs => nodes_fields fs ++ [(d, v)]
       | _ => [(d, v)]
       end
with nodes_fields (fs : fields) {struct fs} : list (dcl * value) :=
  match fs with
  | FNil => []
  | FOne n cont d v rest =>
      (if cont then match v with VNone => [] | _ => nodes d v end else []) ++ nodes_fields rest
  | FMany n cont d vs rest =>
      (if cont then nodes_values d vs else []) ++ nodes_fields rest
  end
with nodes_values (d : dcl) (vs : values) {struct vs} : list (dcl * value) :=
  match vs with
  | VsNil => []
  | VsCons v vs0 => (match v with VNone => [] | _ => nodes d v end) ++ nodes_values d vs0
  end.

Fixpoint ids_of (l : list (dcl * value)) : list nat :=
  match l with
  | [] => []
  | (_, v) :: l' => match vid v with Some i => i :: ids_of l' | None => ids_of l' end
  end.

(* ids of the objects strictly below v *)
Definition below (v : value) : list nat :=
  match v with VObj _ _ fs => ids_of (nodes_fields fs) | _ => [] end.

Definition ev_id (e : nat * value) : option nat := vid (snd e).

(* number of calls of the processor registered under p on the object with identity i *)
Definition is_call (p i : nat) (e : nat * value) : bool :=
  Nat.eqb (fst e) p && match ev_id e with Some j => Nat.eqb j i | None => false end.
Definition calls_on (p i : nat) (log : list (nat * value)) : nat := length (filter (is_call p i) log).

Fixpoint values_to_list (vs : values) : list value :=
  match vs with VsNil => [] | VsCons v vs0 => v :: values_to_list vs0 end.

(* ---------------------------------------------------------------- match-rule processors *)
(* model.py `process_match` (called by process_node while the object tree is being built):
   the processors of match rules run on the parse subtree of a match-rule value, children
   left to right, innermost first; a node's processor receives the concatenation of its
   children's results (`"".join(str(...))`, or the only child's result).  Values are
   abstracted to strings (harness processors return strings); `mreg r` = a processor is
   registered under rule name r, `mproc r s` = what it returns. *)
Inductive ptree :=
| PTerm (rule : nat) (text : list N)
| PNode (rule : nat) (kids : ptrees)
with ptrees :=
| PNil
| PCons (t : ptree) (ts : ptrees).

Section Match.
  Variable mreg : nat -> bool.
  Variable mproc : nat -> list N -> list N.

  (* metamodel.process(value, rule_name): the registered processor, else the identity *)
  Definition mcall (r : nat) (s : list N) (log : list (nat * list N)) : list (nat * list N) * list N :=
    if mreg r then (log ++ [(r, s)], mproc r s) else (log, s).

  Fixpoint pmatch (t : ptree) (log : list (nat * list N)) {struct t} : list (nat * list N) * list N :=
    match t with
    | PTerm r s => mcall r s log                                  (* Terminal *)
    | PNode r ks =>
        let '(log1, res) :=
          match ks with
          | PCons k PNil => pmatch k log                           (* len(nt) == 1 *)
          | _ => pmatch_join ks log                                (* join of the converted children *)
          end in
        mcall r res log1
    end
  with pmatch_join (ks : ptrees) (log : list (nat * list N)) {struct ks} : list (nat * list N) * list N :=
    match ks with
    | PNil => (log, [])
    | PCons k ks' =>
        let '(log1, a) := pmatch k log in
        let '(log2, b) := pmatch_join ks' log1 in
        (log2, a ++ b)
    end.

  (* the match-rule values of a build, in the order process_node reaches them *)
  Fixpoint pmatch_forest (ts : list ptree) (log : list (nat * list N)) : list (nat * list N) :=
    match ts with
    | [] => log
    | t :: ts' => pmatch_forest ts' (fst (pmatch t log))
    end.

  (* specification: result and post-order call list of a subtree *)
  Definition mapp (r : nat) (s : list N) : list N := if mreg r then mproc r s else s.
  Fixpoint mval (t : ptree) : list N :=
    match t with
    | PTerm r s => mapp r s
    | PNode r ks => mapp r (mvals ks)
    end
  with mvals (ks : ptrees) : list N :=
    match ks with PNil => [] | PCons k ks' => mval k ++ mvals ks' end.
  Fixpoint mevents (t : ptree) : list (nat * list N) :=
    match t with
    | PTerm r s => if mreg r then [(r, s)] else []
    | PNode r ks => mevents_kids ks ++ (if mreg r then [(r, mvals ks)] else [])
    end
  with mevents_kids (ks : ptrees) : list (nat * list N) :=
    match ks with PNil => [] | PCons k ks' => mevents k ++ mevents_kids ks' end.
End Match.

(* ---------------------------------------------------------------- phases of a load *)
(* model.py:936-987 for the main model: the list of models under construction is resolved in
   rounds, then every model ends construction (user-class __init__), then every model gets
   its processors.  The statement order is translated from the source (Gen/SrcLoad.v) into a
   list of `phase`s and interpreted by `run_phases`. *)
Inductive pstep :=
| SEndConstruction        (* _end_model_construction(m): restore methods, user __init__ *)
| SCheckNoPostponed       (* assert no Postponed left *)
| SCallProcessors.        (* call_obj_processors(m._tx_metamodel, m) *)

Inductive phase :=
| PResolveLoop            (* while ...: for m in models: resolve_one_step *)
| PRaiseUnresolved        (* if unresolved_count > 0: raise *)
| PForEach (body : list pstep).

Inductive lev :=          (* what a load does, per model index *)
| LResolve (m : nat)
| LInit (m : nat)
| LProc (m : nat)
| LRaise.

Definition run_step (m : nat) (s : pstep) : list lev :=
  match s with
  | SEndConstruction => [LInit m]
  | SCheckNoPostponed => []
  | SCallProcessors => [LProc m]
  end.

(* `models`: indices of the models under construction; `unresolved`: whether references
   remain unresolved when the loop stops.  Returns the trace; a raise ends it. *)
Fixpoint run_phases (ps : list phase) (models : list nat) (unresolved : bool) : list lev :=
  match ps with
  | [] => []
  | PResolveLoop :: ps' => map LResolve models ++ run_phases ps' models unresolved
  | PRaiseUnresolved :: ps' => if unresolved then [LRaise] else run_phases ps' models unresolved
  | PForEach body :: ps' =>
      flat_map (fun m => flat_map (run_step m) body) models ++ run_phases ps' models unresolved
  end.

Definition is_proc (e : lev) : bool := match e with LProc _ => true | _ => false end.
Definition is_link_or_init (e : lev) : bool :=
  match e with LResolve _ | LInit _ => true | _ => false end.

(* no resolve/init event after a processor event *)
Fixpoint procs_last (tr : list lev) : bool :=
  match tr with
  | [] => true
  | e :: tr' =>
      (if is_proc e then forallb (fun x => negb (is_link_or_init x)) tr' else true) && procs_last tr'
  end.

Definition lev_is_proc_of (m : nat) (e : lev) : bool := match e with LProc k => Nat.eqb k m | _ => false end.
Definition lev_is_init_of (m : nat) (e : lev) : bool := match e with LInit k => Nat.eqb k m | _ => false end.

(* static shape conditions on a phase list (decidable; evaluated on the translated list) *)
Definition step_is_proc (s : pstep) : bool := match s with SCallProcessors => true | _ => false end.
Definition step_is_init (s : pstep) : bool := match s with SEndConstruction => true | _ => false end.
Definition phase_has_proc (p : phase) : bool := match p with PForEach b => existsb step_is_proc b | _ => false end.
Definition phase_has_link (p : phase) : bool :=
  match p with PResolveLoop => true | PForEach b => existsb step_is_init b | PRaiseUnresolved => false end.

Fixpoint no_link_after_proc (ps : list phase) : bool :=
  match ps with
  | [] => true
  | p :: ps' =>
      (if phase_has_proc p then forallb (fun q => negb (phase_has_link q)) (p :: ps') else true)
      && no_link_after_proc ps'
  end.

Fixpoint guarded (ps : list phase) : bool :=
  match ps with
  | [] => true
  | PRaiseUnresolved :: _ => true
  | p :: ps' => negb (phase_has_proc p) && guarded ps'
  end.

Definition nprocs_phase (p : phase) : nat :=
  match p with PForEach b => length (filter step_is_proc b) | _ => 0 end.
Definition nprocs (ps : list phase) : nat := fold_right (fun p n => nprocs_phase p + n) 0 ps.

Definition ninits_phase (p : phase) : nat :=
  match p with PForEach b => length (filter step_is_init b) | _ => 0 end.
Definition ninits (ps : list phase) : nat := fold_right (fun p n => ninits_phase p + n) 0 ps.

(* ---------------------------------------------------------------- printing / harness *)
(* canonical text of values and logs (mirrored by tools/props/c13_common.py show_value) and
   the table-driven processors used when the model is evaluated on generated cases *)
From TxV Require Import Core.Show.
Open Scope string_scope.

Fixpoint show_value (v : value) : string :=
  match v with
  | VNone => "N"
  | VAtom a => "'" ++ show_nat a ++ "'"
  | VObj id c fs =>
      "#" ++ show_nat id ++ ":" ++ show_nat (c_ns c) ++ "." ++ show_nat (c_nm c) ++ "{" ++ show_fields fs ++ "}"
  end
with show_fields (fs : fields) : string :=
  match fs with
  | FNil => ""
  | FOne n _ _ v rest =>
      show_nat n ++ "=" ++ show_value v ++ match rest with FNil => "" | _ => ";" end ++ show_fields rest
  | FMany n _ _ vs rest =>
      show_nat n ++ "=[" ++ show_values vs ++ "]" ++ match rest with FNil => "" | _ => ";" end ++ show_fields rest
  end
with show_values (vs : values) : string :=
  match vs with
  | VsNil => ""
  | VsCons v vs0 => show_value v ++ match vs0 with VsNil => "" | _ => "," end ++ show_values vs0
  end.

Definition show_event (e : nat * value) : string := show_nat (fst e) ++ "(" ++ show_value (snd e) ++ ")".
Definition show_log (l : list (nat * value)) : string := sjoin "|" (map show_event l).

Inductive action := AAtom (a : nat) | AChild.

Fixpoint first_obj_vs (vs : values) : option value :=
  match vs with
  | VsNil => None
  | VsCons v vs0 => match v with VObj _ _ _ => Some v | _ => first_obj_vs vs0 end
  end.

Fixpoint first_obj (fs : fields) : option value :=
  match fs with
  | FNil => None
  | FOne _ cont _ v rest =>
      if cont then match v with VObj _ _ _ => Some v | _ => first_obj rest end else first_obj rest
  | FMany _ cont _ vs rest =>
      if cont then match first_obj_vs vs with Some x => Some x | None => first_obj rest end
      else first_obj rest
  end.

(* recording processors of the harness: what the processor registered under p returns *)
Definition tbl_proc (tbl : list (nat * nat * action)) (p : nat) (v : value) : option value :=
  let i := match vid v with Some i => i | None => 0 end in
  match find (fun x => Nat.eqb (fst (fst x)) p && Nat.eqb (snd (fst x)) i) tbl with
  | Some (_, AAtom a) => Some (VAtom a)
  | Some (_, AChild) => match v with VObj _ _ fs => first_obj fs | _ => None end
  | None => None
  end.

Definition tbl_reg (l : list nat) (n : nat) : bool := existsb (Nat.eqb n) l.

(* Python truthiness of the harness values: objects are truthy, None is not, atoms by table *)
Definition tbl_truthy (falsy : list nat) (v : value) : bool :=
  match v with VNone => false | VAtom k => negb (existsb (Nat.eqb k) falsy) | VObj _ _ _ => true end.

(* several models under construction, processed one after the other (model.py:979-987) *)
Definition run_models (F : walk_facts) (regl falsy : list nat) (tbl : list (nat * nat * action))
    (ms : list (dcl * value)) : string :=
  let rs := map (fun m => walk_root F (tbl_reg regl) (tbl_proc tbl) (tbl_truthy falsy) (fst m) (snd m)) ms in
  show_log (flat_map fst rs) ++ "$" ++ sjoin "$" (map (fun r => show_value (snd r)) rs).

(* match-rule processors of the harness: the processor of rule r appends a fixed suffix *)
Definition tbl_mproc (tbl : list (nat * list N)) (r : nat) (s : list N) : list N :=
  match find (fun x => Nat.eqb (fst x) r) tbl with Some (_, suf) => s ++ suf | None => s end.
Definition show_mlog (l : list (nat * list N)) : string :=
  sjoin "|" (map (fun e => show_nat (fst e) ++ "(" ++ show_str (snd e) ++ ")") l).
Definition run_match (regl : list nat) (tbl : list (nat * list N)) (ts : list ptree) : string :=
  show_mlog (pmatch_forest (tbl_reg regl) (tbl_mproc tbl) ts []).
