(* C07 — executable model of default reference resolution.
   Transcribes (from the pinned, repaired source):
     textx/model.py            textx_isinstance (visit-each-class-once search over _tx_inh_by),
                               get_children (pre-order walk over containment attributes),
                               resolve_one_step: builtins fallback + "Unknown object" error
     textx/scoping/providers.py PlainName.__call__ (multi_metamodel_support branch)
   The dispatch on the number of matches, the selector conjuncts and the error-message
   templates are not written here: they come from Gen/SrcPlain.v (tools/translate/plain_tr.py). *)
From TxV Require Import Core.Base Model.PlainDefs Gen.SrcPlain.

(* ---------------------------------------------------------------- metamodel classes *)
(* A class is its position in the table.  cinh = _tx_inh_by as positions;  cpy = the other classes of the
   table that are Python base classes of this class (user-supplied classes may inherit from each other:
   isinstance(obj, c) then also holds for those c) - [] for classes textX creates itself. *)
Record cls := { cname : list N; cinh : list nat; cpy : list nat }.

Definition OBJECT_name : list N := [79;66;74;69;67;84]%N.

Definition mem_nat (x : nat) (l : list nat) : bool := existsb (Nat.eqb x) l.

Section Conformance.
  Variable classes : list cls.
  (* the object under test, as far as isinstance / _tx_fqn equality see it: the classes c of the table for
     which isinstance(obj, c) or obj._tx_fqn == c._tx_fqn holds ([] = a foreign object) *)
  Variable dc : list nat.

  Definition inh (c : nat) : list nat :=
    match nth_error classes c with Some k => cinh k | None => [] end.

  Definition is_object_cls (c : nat) : bool :=
    match nth_error classes c with Some k => str_eqb (cname k) OBJECT_name | None => false end.

  (* the three non-recursive tests of _isinstance *)
  Definition local (c : nat) : bool :=
    is_object_cls c || mem_nat c dc.

  (* _isinstance(obj_cls) with the shared `visited` set threaded through.
     None = out of fuel (excluded by C07_conforms_total for well-formed tables). *)
  Fixpoint dfs (fuel : nat) (v : list nat) (c : nat) : option (bool * list nat) :=
    match fuel with
    | O => None
    | S f =>
      if local c then Some (true, v)
      else
        (fix go (v : list nat) (l : list nat) : option (bool * list nat) :=
           match l with
           | [] => Some (false, v)
           | d :: r =>
             if mem_nat d v then go v r
             else match dfs f v d with
                  | None => None
                  | Some (true, v') => Some (true, v')
                  | Some (false, v') => go v' r
                  end
           end) (c :: v) (inh c)
    end.

  Definition conforms_opt (t : nat) : option bool :=
    match dfs (S (length classes)) [] t with
    | Some (b, _) => Some b
    | None => None
    end.

  Definition conforms (t : nat) : bool :=
    match conforms_opt t with Some b => b | None => false end.
End Conformance.

(* the direct tests an instance of class k passes: its own class and its Python base classes *)
Definition direct_of (classes : list cls) (k : nat) : list nat :=
  k :: match nth_error classes k with Some c => cpy c | None => [] end.

(* every _tx_inh_by entry is a class of the table *)
Definition wf_classes (classes : list cls) : bool :=
  forallb (fun k => forallb (fun d => Nat.ltb d (length classes)) (cinh k)) classes.

(* ---------------------------------------------------------------- object trees *)
(* the value of the `name` attribute as `x.name == obj_name` sees it *)
Inductive nameval :=
| NoName                  (* the class has no attribute `name`: hasattr(x, "name") is False *)
| NameStr (s : list N)    (* a text *)
| NameOther.              (* something that never equals a str (int, list, None, object) *)

(* kids = the contained model objects in the order get_children follows them
   (attributes in _tx_attrs order, list attributes in list order) *)
Inductive node := Node (ncls : nat) (nname : nameval) (kids : list node).

Definition ncls_of (n : node) : nat := match n with Node c _ _ => c end.
Definition nname_of (n : node) : nameval := match n with Node _ nm _ => nm end.
Definition kids_of (n : node) : list node := match n with Node _ _ ks => ks end.

(* get_children(selector, root): pre-order; an object is identified by its path from the root *)
Fixpoint collect (sel : node -> bool) (n : node) : list (list nat * node) :=
  match n with
  | Node c nm ks =>
    (if sel n then [([], n)] else []) ++
    (fix go (i : nat) (l : list node) : list (list nat * node) :=
       match l with
       | [] => []
       | k :: r => map (fun pn => (i :: fst pn, snd pn)) (collect sel k) ++ go (S i) r
       end) 0%nat ks
  end.

(* ---------------------------------------------------------------- PlainName *)
Definition has_name (d : node) : bool :=
  match nname_of d with NoName => false | _ => true end.
Definition name_eq (n : list N) (d : node) : bool :=
  match nname_of d with NameStr s => str_eqb s n | _ => false end.

Definition selector (classes : list cls) (n : list N) (t : nat) (d : node) : bool :=
  forallb (fun cj => match cj with
                     | SHasName => has_name d
                     | SNameEq => name_eq n d
                     | SIsInstance => conforms classes (direct_of classes (ncls_of d)) t
                     end) selector_conj.

Inductive pres :=
| PNone                       (* return None *)
| POne (p : list nat)         (* the object at path p *)
| PNotUnique                  (* raise "name ... is not unique." *)
| PIndexError.                (* result_lst[i] out of range (not reachable with the pinned table) *)

Definition run_act (a : act) (cands : list (list nat * node)) : pres :=
  match a with
  | ActPick i => match nth_error cands i with Some pn => POne (fst pn) | None => PIndexError end
  | ActNotUnique => PNotUnique
  | ActNone => PNone
  end.

Fixpoint dispatch (tbl : list (cmp * nat * act)) (cands : list (list nat * node)) : pres :=
  match tbl with
  | [] => run_act plain_default cands
  | (c, k, a) :: tbl' => if cmp_eval c (length cands) k then run_act a cands else dispatch tbl' cands
  end.

Definition candidates (classes : list cls) (root : node) (n : list N) (t : nat) : list (list nat * node) :=
  collect (selector classes n t) root.

Definition plain_name (classes : list cls) (root : node) (n : list N) (t : nat) : pres :=
  dispatch plain_dispatch (candidates classes root n t).

(* ---------------------------------------------------------------- resolve_one_step *)
(* metamodel.builtins: key -> object; of the object only the direct tests it passes (see `dc`) matter *)
Definition builtins := list (list N * list nat).

Fixpoint blookup (n : list N) (b : builtins) : option (list nat) :=
  match b with
  | [] => None
  | (k, o) :: b' => if str_eqb k n then Some o else blookup n b'
  end.

Inductive outcome :=
| Resolved (p : list nat)            (* a model object, by path *)
| Builtin (key : list N)             (* metamodel.builtins[key] *)
| ErrNotUnique (n : list N)
| ErrUnknown (n : list N) (t : nat)
| ErrIndex.

Record ref := { rname : list N; rcls : nat }.

Definition resolve_ref (classes : list cls) (root : node) (b : builtins) (r : ref) : outcome :=
  match plain_name classes root (rname r) (rcls r) with
  | PNotUnique => ErrNotUnique (rname r)
  | PIndexError => ErrIndex
  | POne p => Resolved p
  | PNone =>
    match blookup (rname r) b with
    | Some o => if conforms classes o (rcls r) then Builtin (rname r) else ErrUnknown (rname r) (rcls r)
    | None => ErrUnknown (rname r) (rcls r)
    end
  end.

(* several loaded models (the main model and the models it imports): PlainName searches get_model(obj), the
   model that contains the referring object, and nothing else *)
Definition empty_model : node := Node 0 NoName [].
Definition resolve_in (classes : list cls) (world : list node) (i : nat) (b : builtins) (r : ref) : outcome :=
  resolve_ref classes (nth i world empty_model) b r.

Definition is_error (o : outcome) : bool :=
  match o with Resolved _ | Builtin _ => false | _ => true end.

(* loading: references are resolved in textual order; the first error aborts the load *)
Inductive loadres :=
| LoadOk (targets : list outcome)
| LoadErr (index : nat) (e : outcome).

Fixpoint load_from (classes : list cls) (root : node) (b : builtins) (i : nat) (rs : list ref) (acc : list outcome) : loadres :=
  match rs with
  | [] => LoadOk (rev acc)
  | r :: rs' =>
    let o := resolve_ref classes root b r in
    if is_error o then LoadErr i o else load_from classes root b (S i) rs' (o :: acc)
  end.

Definition load (classes : list cls) (root : node) (b : builtins) (rs : list ref) : loadres :=
  load_from classes root b 0%nat rs [].

(* ---------------------------------------------------------------- error texts *)
Definition class_name (classes : list cls) (t : nat) : list N :=
  match nth_error classes t with Some k => cname k | None => [] end.

Definition render (ps : list mpart) (n cn : list N) : list N :=
  flat_map (fun p => match p with MLit s => s | MName => n | MCls => cn end) ps.

(* (message, err_type) of a failed load *)
Definition error_text (classes : list cls) (o : outcome) : list N * option (list N) :=
  match o with
  | ErrNotUnique n => (render notunique_msg n [], None)
  | ErrUnknown n t => (render unknown_msg n (class_name classes t), Some unknown_err_type)
  | _ => ([], None)
  end.
