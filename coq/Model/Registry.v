(* Model of textx/registration.py: the language / generator registries and the metamodel
   cache as a state machine, plus the abstract specification (eagerly loaded
   case-insensitive maps) it refines.
   The implementation machine ([step]) is instantiated with the facts that
   tools/translate/registry_tr.py reads from textx/registration.py on every run
   (Gen/SrcRegistry.v): which key expressions are lower-cased, what clearing resets, the cache
   key, the skipping of pattern-less languages.  The specification machine ([sstep]) is fixed. *)
From TxV Require Import Core.Base Gen.SrcRegistry.

Definition lower_char (c : N) : N := if (N.leb 65 c && N.leb c 90)%bool then (c + 32)%N else c.
Definition lower (s : list N) : list N := map lower_char s.

Inductive mmsrc := Instance (id : nat) | Factory (fid : nat) | BadFactory.
Record ldesc := { lname : list N; lpattern : option (list N); lsrc : mmsrc; ltag : nat }.
Record gdesc := { glang : list N; gtarget : list N; gtag : nat }.
Inductive mm := MMInst (id : nat) | MMFresh (fid serial : nat) (kw : bool).

Inductive op :=
| RegLang (d : ldesc) | ClearLangs | RegGen (d : gdesc) | ClearGens
| LangDescription (n : list N) | GenDescription (l t : list N) (anyp : bool)
| LangsForFile (f : list N) | LangForFile (f : list N)
| MMForLang (n : list N) (kw : bool) | MMForFile (f : list N) (kw : bool) | MMsForFile (f : list N)
| LangDescs | GenDescs.

Inductive result :=
| RUnit | RErr | RLang (d : ldesc) | RLangs (l : list ldesc) | RGen (d : gdesc)
| RGens (l : list gdesc) | RMM (m : mm) | RMMs (l : list mm)
| RCrash.   (* an exception that is not a TextXRegistrationError *)

Fixpoint lookup {A} (k : list N) (l : list (list N * A)) : option A :=
  match l with
  | [] => None
  | (k', v) :: l' => if str_eqb k k' then Some v else lookup k l'
  end.

Fixpoint update {A} (k : list N) (v : A) (l : list (list N * A)) : list (list N * A) :=
  match l with
  | [] => [(k, v)]
  | (k', v') :: l' => if str_eqb k k' then (k, v) :: l' else (k', v') :: update k v l'
  end.

Definition any_key : list N := [97; 110; 121]%N.

(* a key expression of the source: with or without `.lower()` (Gen fact) *)
Definition lw (lowered : bool) (s : list N) : list N := if lowered then lower s else s.

Section Registry.
  Variable fnm : list N -> list N -> bool.          (* fnmatch.fnmatch: oracle *)
  Variable ep_langs : list ldesc.                   (* entry-point registrations *)
  Variable ep_gens : list gdesc.

  Definition ltable := list (list N * ldesc).
  Definition gtable := list (list N * list (list N * gdesc)).

  (* register_language on a loaded table *)
  Definition reg_lang (d : ldesc) (t : ltable) : option ltable :=
    match lookup (lower (lname d)) t with
    | Some _ => None
    | None => Some (t ++ [(lower (lname d), d)])
    end.

  Definition reg_gen (d : gdesc) (t : gtable) : option gtable :=
    let lk := lower (glang d) in
    let tk := lower (gtarget d) in
    match lookup lk t with
    | None => Some (t ++ [(lk, [(tk, d)])])
    | Some lg => match lookup tk lg with
                 | Some _ => None
                 | None => Some (update lk (lg ++ [(tk, d)]) t)
                 end
    end.

  (* entry-point discovery (language_descriptions / generator_descriptions): the table is set to {} and
     the entry points are registered in order through register_language / register_generator; the
     first duplicate raises TextXRegistrationError out of the discovery and leaves the table as loaded
     so far (not None: discovery is not repeated).  Returns the table and "discovery failed". *)
  Fixpoint load_from {T D} (reg : D -> T -> option T) (eps : list D) (t : T) : T * bool :=
    match eps with
    | [] => (t, false)
    | d :: r => match reg d t with Some t' => load_from reg r t' | None => (t, true) end
    end.
  Definition load_langs_full : ltable * bool := load_from reg_lang ep_langs [].
  Definition load_gens_full : gtable * bool := load_from reg_gen ep_gens [].
  Definition load_langs : ltable := fst load_langs_full.
  Definition load_gens : gtable := fst load_gens_full.
  Definition load_langs_bad : bool := snd load_langs_full.
  Definition load_gens_bad : bool := snd load_gens_full.

  Definition matches (f : list N) (d : ldesc) : bool :=
    match lpattern d with
    | None => false
    | Some p => str_eqb f p || fnm f p
    end.

  Definition langs_for_file (f : list N) (t : ltable) : list ldesc := filter (matches f) (map snd t).

  Definition gen_description (l tg : list N) (anyp : bool) (t : gtable) : option gdesc :=
    let direct := match lookup (lower l) t with Some lg => lookup (lower tg) lg | None => None end in
    match direct with
    | Some d => Some d
    | None => if anyp then match lookup any_key t with Some lg => lookup (lower tg) lg | None => None end
              else None
    end.

  (* metamodel_for_language on a loaded language table; returns result, cache, serial *)
  Definition mm_for_lang (n : list N) (kw : bool) (t : ltable) (cache : list (list N * mm)) (serial : nat)
    : option mm * list (list N * mm) * nat :=
    let k := lower n in
    match lookup k cache, kw with
    | Some m, false => (Some m, cache, serial)
    | _, _ =>
        match lookup k t with
        | None => (None, cache, serial)
        | Some d =>
            match lsrc d with
            | Instance i => (Some (MMInst i), update k (MMInst i) cache, serial)
            | Factory f => (Some (MMFresh f serial kw), update k (MMFresh f serial kw) cache, S serial)
            | BadFactory => (None, cache, S serial)
            end
        end
    end.

  Fixpoint mms_for (ds : list ldesc) (t : ltable) (cache : list (list N * mm)) (serial : nat) (acc : list mm)
    : option (list mm) * list (list N * mm) * nat :=
    match ds with
    | [] => (Some acc, cache, serial)
    | d :: ds' =>
        match mm_for_lang (lname d) false t cache serial with
        | (Some m, c', s') => mms_for ds' t c' s' (acc ++ [m])
        | (None, c', s') => (None, c', s')
        end
    end.

  (* ---------------- the functions of registration.py, with the key expressions, clearing and
     pattern test as found in the source (Gen/SrcRegistry.v); Python dict assignment = [update] *)
  Definition ireg_lang (d : ldesc) (t : ltable) : option ltable :=
    match lookup (lw reg_lang_check_lowered (lname d)) t with
    | Some _ => None
    | None => Some (update (lw reg_lang_store_lowered (lname d)) d t)
    end.

  Definition ireg_gen (d : gdesc) (t : gtable) : option gtable :=
    let lk := lw reg_gen_lang_lowered (glang d) in
    match lookup lk t with
    | None => Some (t ++ [(lk, [(lw reg_gen_store_lowered (gtarget d), d)])])       (* setdefault(lk, {}) then store *)
    | Some lg => match lookup (lw reg_gen_check_lowered (gtarget d)) lg with
                 | Some _ => None
                 | None => Some (update lk (update (lw reg_gen_store_lowered (gtarget d)) d lg) t)
                 end
    end.

  Definition ilang_description (n : list N) (t : ltable) : option ldesc := lookup (lw lang_lookup_lowered n) t.

  Definition igen_description (l tg : list N) (anyp : bool) (t : gtable) : option gdesc :=
    let lk := lw gen_lookup_lang_lowered l in
    let tk := lw gen_lookup_target_lowered tg in
    let direct := match lookup lk t with Some lg => lookup tk lg | None => None end in
    match direct with
    | Some d => Some d
    | None => if anyp then match lookup any_key t with Some lg => lookup tk lg | None => None end
              else None
    end.

  (* None = fnmatch is reached with a None pattern (TypeError) *)
  Definition ilangs_for_file (f : list N) (t : ltable) : option (list ldesc) :=
    if patternless_skipped then Some (filter (matches f) (map snd t))
    else if existsb (fun d => match lpattern d with None => true | Some _ => false end) (map snd t) then None
    else Some (filter (matches f) (map snd t)).

  Definition imm_for_lang (n : list N) (kw : bool) (t : ltable) (cache : list (list N * mm)) (serial : nat)
    : option mm * list (list N * mm) * nat :=
    let k := lw mm_key_lowered n in
    match lookup k cache, kw with
    | Some m, false => (Some m, cache, serial)
    | _, _ =>
        match ilang_description k t with
        | None => (None, cache, serial)
        | Some d =>
            match lsrc d with
            | Instance i => (Some (MMInst i), update k (MMInst i) cache, serial)
            | Factory f => (Some (MMFresh f serial kw), update k (MMFresh f serial kw) cache, S serial)
            | BadFactory => (None, cache, S serial)
            end
        end
    end.

  Fixpoint imms_for (ds : list ldesc) (t : ltable) (cache : list (list N * mm)) (serial : nat) (acc : list mm)
    : option (list mm) * list (list N * mm) * nat :=
    match ds with
    | [] => (Some acc, cache, serial)
    | d :: ds' =>
        match imm_for_lang (lname d) false t cache serial with
        | (Some m, c', s') => imms_for ds' t c' s' (acc ++ [m])
        | (None, c', s') => (None, c', s')
        end
    end.

  (* ---------------- the implementation's state machine (lazy tables) *)
  Record state := { langs : option ltable; gens : option gtable; cache : list (list N * mm); serial : nat }.
  Definition init : state := {| langs := None; gens := None; cache := []; serial := 0 |}.

  (* discovery as the source performs it: through the register functions of the source *)
  Definition iload_langs_full : ltable * bool := load_from ireg_lang ep_langs [].
  Definition iload_gens_full : gtable * bool := load_from ireg_gen ep_gens [].
  Definition force_l (s : state) : ltable := match langs s with Some t => t | None => fst iload_langs_full end.
  Definition force_g (s : state) : gtable := match gens s with Some t => t | None => fst iload_gens_full end.
  (* would the (lazy) discovery fail now? *)
  Definition fail_l (s : state) : bool := match langs s with Some _ => false | None => snd iload_langs_full end.
  Definition fail_g (s : state) : bool := match gens s with Some _ => false | None => snd iload_gens_full end.
  Definition with_l (s : state) (t : ltable) := {| langs := Some t; gens := gens s; cache := cache s; serial := serial s |}.
  Definition with_g (s : state) (t : gtable) := {| langs := langs s; gens := Some t; cache := cache s; serial := serial s |}.
  Definition with_c (s : state) (c : list (list N * mm)) (n : nat) := {| langs := langs s; gens := gens s; cache := c; serial := n |}.

  (* an operation once discovery (if any was due) has succeeded *)
  Definition step_ok (s : state) (o : op) : state * result :=
    match o with
    | RegLang d => let t := force_l s in
                   match ireg_lang d t with
                   | Some t' => (with_l s t', RUnit)
                   | None => (with_l s t, RErr)
                   end
    | ClearLangs => ({| langs := if clear_langs_forgets_table then None else Some [];
                        gens := gens s;
                        cache := if clear_langs_drops_cache then [] else cache s;
                        serial := serial s |}, RUnit)
    | RegGen d => let t := force_g s in
                  match ireg_gen d t with
                  | Some t' => (with_g s t', RUnit)
                  | None => (with_g s t, RErr)
                  end
    | ClearGens => ({| langs := langs s; gens := if clear_gens_forgets_table then None else Some [];
                       cache := cache s; serial := serial s |}, RUnit)
    | LangDescription n => let t := force_l s in
                           (with_l s t, match ilang_description n t with Some d => RLang d | None => RErr end)
    | GenDescription l tg anyp => let t := force_g s in
                           (with_g s t, match igen_description l tg anyp t with Some d => RGen d | None => RErr end)
    | LangsForFile f => let t := force_l s in
                        (with_l s t, match ilangs_for_file f t with Some l => RLangs l | None => RCrash end)
    | LangForFile f => let t := force_l s in
                       (with_l s t, match ilangs_for_file f t with Some [d] => RLang d | Some _ => RErr | None => RCrash end)
    | MMForLang n kw =>
        (* the language table is only consulted (and loaded) on a cache miss or with kwargs *)
        match lookup (lw mm_key_lowered n) (cache s), kw with
        | Some m, false => (s, RMM m)
        | _, _ => let t := force_l s in
                  match imm_for_lang n kw t (cache s) (serial s) with
                  | (Some m, c', n') => (with_c (with_l s t) c' n', RMM m)
                  | (None, c', n') => (with_c (with_l s t) c' n', RErr)
                  end
        end
    | MMForFile f kw =>
        let t := force_l s in
        match ilangs_for_file f t with
        | Some [d] => match imm_for_lang (lname d) kw t (cache s) (serial s) with
                      | (Some m, c', n') => (with_c (with_l s t) c' n', RMM m)
                      | (None, c', n') => (with_c (with_l s t) c' n', RErr)
                      end
        | Some _ => (with_l s t, RErr)
        | None => (with_l s t, RCrash)
        end
    | MMsForFile f =>
        let t := force_l s in
        match ilangs_for_file f t with
        | Some ds => match imms_for ds t (cache s) (serial s) [] with
                     | (Some ms, c', n') => (with_c (with_l s t) c' n', RMMs ms)
                     | (None, c', n') => (with_c (with_l s t) c' n', RErr)
                     end
        | None => (with_l s t, RCrash)
        end
    | LangDescs => let t := force_l s in (with_l s t, RLangs (map snd t))
    | GenDescs => let t := force_g s in (with_g s t, RGens (flat_map (fun lg => map snd (snd lg)) t))
    end.

  (* which operations consult the language / generator table (and so trigger a due discovery) *)
  Definition needs_l (o : op) (c : list (list N * mm)) : bool :=
    match o with
    | RegLang _ | LangDescription _ | LangsForFile _ | LangForFile _ | MMForFile _ _ | MMsForFile _ | LangDescs => true
    | MMForLang n kw => match lookup (lw mm_key_lowered n) c, kw with Some _, false => false | _, _ => true end
    | _ => false
    end.
  Definition needs_g (o : op) : bool :=
    match o with RegGen _ | GenDescription _ _ _ | GenDescs => true | _ => false end.

  (* a failing discovery raises TextXRegistrationError out of whatever operation triggered it; the
     partially loaded table stays *)
  Definition step (s : state) (o : op) : state * result :=
    if (needs_l o (cache s) && fail_l s)%bool then (with_l s (force_l s), RErr)
    else if (needs_g o && fail_g s)%bool then (with_g s (force_g s), RErr)
    else step_ok s o.

  Fixpoint run (s : state) (ops : list op) : list result :=
    match ops with
    | [] => []
    | o :: ops' => let '(s', r) := step s o in r :: run s' ops'
    end.

  (* ---------------- the specification: eagerly loaded case-insensitive maps; when the entry points
     contain a duplicate, the map holds the entry points before it and the FIRST operation that
     consults the map after start / clearing reports the registration error ([slfail], [sgfail]) *)
  Record sstate := { slangs : ltable; slfail : bool; sgens : gtable; sgfail : bool; scache : list (list N * mm); sserial : nat }.
  Definition sinit : sstate :=
    {| slangs := load_langs; slfail := load_langs_bad; sgens := load_gens; sgfail := load_gens_bad; scache := []; sserial := 0 |}.

  Definition sstep_ok (s : sstate) (o : op) : sstate * result :=
    let setl t := {| slangs := t; slfail := slfail s; sgens := sgens s; sgfail := sgfail s; scache := scache s; sserial := sserial s |} in
    let setg t := {| slangs := slangs s; slfail := slfail s; sgens := t; sgfail := sgfail s; scache := scache s; sserial := sserial s |} in
    let setc c n := {| slangs := slangs s; slfail := slfail s; sgens := sgens s; sgfail := sgfail s; scache := c; sserial := n |} in
    match o with
    | RegLang d => match reg_lang d (slangs s) with Some t' => (setl t', RUnit) | None => (s, RErr) end
    | ClearLangs => ({| slangs := load_langs; slfail := load_langs_bad; sgens := sgens s; sgfail := sgfail s; scache := []; sserial := sserial s |}, RUnit)
    | RegGen d => match reg_gen d (sgens s) with Some t' => (setg t', RUnit) | None => (s, RErr) end
    | ClearGens => ({| slangs := slangs s; slfail := slfail s; sgens := load_gens; sgfail := load_gens_bad; scache := scache s; sserial := sserial s |}, RUnit)
    | LangDescription n => (s, match lookup (lower n) (slangs s) with Some d => RLang d | None => RErr end)
    | GenDescription l tg anyp => (s, match gen_description l tg anyp (sgens s) with Some d => RGen d | None => RErr end)
    | LangsForFile f => (s, RLangs (langs_for_file f (slangs s)))
    | LangForFile f => (s, match langs_for_file f (slangs s) with [d] => RLang d | _ => RErr end)
    | MMForLang n kw =>
        match mm_for_lang n kw (slangs s) (scache s) (sserial s) with
        | (Some m, c', n') => (setc c' n', RMM m)
        | (None, c', n') => (setc c' n', RErr)
        end
    | MMForFile f kw =>
        match langs_for_file f (slangs s) with
        | [d] => match mm_for_lang (lname d) kw (slangs s) (scache s) (sserial s) with
                 | (Some m, c', n') => (setc c' n', RMM m)
                 | (None, c', n') => (setc c' n', RErr)
                 end
        | _ => (s, RErr)
        end
    | MMsForFile f =>
        match mms_for (langs_for_file f (slangs s)) (slangs s) (scache s) (sserial s) [] with
        | (Some ms, c', n') => (setc c' n', RMMs ms)
        | (None, c', n') => (setc c' n', RErr)
        end
    | LangDescs => (s, RLangs (map snd (slangs s)))
    | GenDescs => (s, RGens (flat_map (fun lg => map snd (snd lg)) (sgens s)))
    end.

  (* which operations consult the maps (a cached metamodel is answered without the language map) *)
  Definition sneeds_l (o : op) (c : list (list N * mm)) : bool :=
    match o with
    | RegLang _ | LangDescription _ | LangsForFile _ | LangForFile _ | MMForFile _ _ | MMsForFile _ | LangDescs => true
    | MMForLang n kw => match lookup (lower n) c, kw with Some _, false => false | _, _ => true end
    | _ => false
    end.

  Definition sstep (s : sstate) (o : op) : sstate * result :=
    if (sneeds_l o (scache s) && slfail s)%bool then
      ({| slangs := slangs s; slfail := false; sgens := sgens s; sgfail := sgfail s; scache := scache s; sserial := sserial s |}, RErr)
    else if (needs_g o && sgfail s)%bool then
      ({| slangs := slangs s; slfail := slfail s; sgens := sgens s; sgfail := false; scache := scache s; sserial := sserial s |}, RErr)
    else sstep_ok s o.

  Fixpoint srun (s : sstate) (ops : list op) : list result :=
    match ops with
    | [] => []
    | o :: ops' => let '(s', r) := sstep s o in r :: srun s' ops'
    end.

  Definition abs (s : state) : sstate :=
    {| slangs := force_l s; slfail := fail_l s; sgens := force_g s; sgfail := fail_g s; scache := cache s; sserial := serial s |}.
End Registry.
