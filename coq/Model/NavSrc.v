(* C05 — the facts translated from textx/model.py (Gen/SrcNav.v) read as a function: which
   entry of parser._inst_stack the source assigns to `parent`.  No proofs. *)
From TxV Require Import Core.Base Gen.SrcNav Model.Nav.

(* Python list indexing (negative indices count from the end) *)
Definition py_index {A} (idx : Z) (l : list A) : option A :=
  if (idx <? 0)%Z then
    if (Z.of_nat (length l) + idx <? 0)%Z then None
    else nth_error l (Z.to_nat (Z.of_nat (length l) + idx))
  else nth_error l (Z.to_nat idx).

(* the model keeps parser._inst_stack top first; Python's list is bottom first *)
Definition src_parent_of_stack (stack_top_first : list N) : option N :=
  if src_parent_guard_nonempty then
    match stack_top_first with
    | [] => None                                   (* `if parser._inst_stack:` *)
    | _ => py_index src_parent_stack_index (rev stack_top_first)
    end
  else py_index src_parent_stack_index (rev stack_top_first).

Definition s_mult_one : list N := [77;85;76;84;95;79;78;69]%N.                       (* MULT_ONE *)
Definition s_mult_optional : list N := [77;85;76;84;95;79;80;84;73;79;78;65;76]%N.  (* MULT_OPTIONAL *)
Definition s_attr_cont : list N := [97;116;116;114;46;99;111;110;116]%N.            (* attr.cont *)
