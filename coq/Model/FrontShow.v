(* C23 — printing of model outcomes and table-driven oracles for the correspondence harness. *)
From TxV Require Import Core.Base Core.Show Model.FrontDefs Model.Front.
From TxV Require Model.Kinds.
Open Scope string_scope.

Definition show_class (c : txclass) : string :=
  match c with CSyntax => "SYN" | CSemantic => "SEM" | CPlain => "PLAIN" | CRegistration => "REG" end.

Definition show_why (w : why) : string :=
  match w with
  | WParse => "parse" | WParam => "param" | WWsParam => "wsparam" | WSplit => "split" | WRegex => "regex"
  | WEscape => "escape" | WOptMods => "optmods" | WAsgMods => "asgmods" | WMultiBool => "multibool"
  | WPrimRef => "primref" | WBoolRep => "boolrep" | WBoolMany => "boolmany" | WRuleRef => "ruleref" | WClsRef => "clsref"
  | WRegistration => "registration" | WUserRedef => "userredef" | WUserUnused => "userunused"
  end.

Definition show_outcome (o : outcome) : string :=
  match o with
  | Ok => "OK"
  | TxErr c w => show_class c ++ ":" ++ show_why w
  | Crash n => "CRASH:" ++ show_str n
  end.

Fixpoint assoc {B} (k : list N) (l : list (list N * B)) (d : B) : B :=
  match l with
  | [] => d
  | (k', v) :: l' => if str_eqb k k' then v else assoc k l' d
  end.

Fixpoint assoc2 {B} (k1 k2 : list N) (l : list (list N * list N * B)) (d : B) : B :=
  match l with
  | [] => d
  | (a, b, v) :: l' => if str_eqb k1 a && str_eqb k2 b then v else assoc2 k1 k2 l' d
  end.

Definition orc_of (re : list (list N * option exc)) (dec : list (list N * option exc))
                  (ext : list (list N * list N * ext_res)) : oracles :=
  {| o_regex := fun s => assoc s re None;
     o_decode := fun s => assoc s dec None;
     o_ext := fun l n => assoc2 l n ext ExtMissing |}.

(* outcome, then every class-reference error of the last phase (its order is abstracted, see design/C23.md) *)
Definition show_case (c : cfg) (o : oracles) (user : list (list N)) (fuel : nat) (g : ginput) : string :=
  show_outcome (front c o user fuel g) ++ "|" ++
  match g with
  | GParseRaises _ => ""
  | GTree t => sjoin "," (map show_outcome (filter (fun x => match x with Ok => false | _ => true end) (cls_errors c o t)))
  end.

(* the rule kinds C03's fixpoint computes on to_kinds, for the classes of the namespace in order (compared with
   cls._tx_type of the implementation on every accepted grammar) *)
Definition show_kind (k : Kinds.kind) : string :=
  match k with Kinds.KMatch => "m" | Kinds.KAbstract => "a" | Kinds.KCommon => "c" end.

Definition show_kinds (c : cfg) (g : ginput) : string :=
  match g with
  | GParseRaises _ => ""
  | GTree t =>
      match Kinds.determine_types (to_kinds c t) with
      | Some s => sjoin "" (map (fun x => show_kind (Kinds.types s x)) (seq 0 (List.length (effective (t_rules t)))))
      | None => "OOF"
      end
  end.

Definition show_case_kinds (c : cfg) (o : oracles) (user : list (list N)) (fuel : nat) (g : ginput) : string :=
  show_case c o user fuel g ++ "|" ++ match front c o user fuel g with Ok => show_kinds c g | _ => "" end.
