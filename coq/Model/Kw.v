(* Keyword-like literals (autokwd) and case-insensitive literals (ignore_case):
   executable model of textx/lang.py TextXVisitor.visit_str_match / visit_re_match and of the
   terminals they build (arpeggio StrMatch._parse with ignore_case, RegExMatch of `<literal>\b`).
   No proofs here.

   Regular expressions are not interpreted in general.  The two regexes textX itself writes
   are modelled directly over a character classification [wordc] (\w) / [digitc] (\d):
     - the detection regex   [^\d\W]\w*      -> [kw_regex_end], [kw_like]
     - the keyword regex     <literal>\b     -> [kw_match]
   The classification is an argument; [ascii_word]/[ascii_digit] are Python's for code points
   below 128, [wordc_of]/[digitc_of] extend them by explicit lists (supplied by the harness
   for the non-ASCII characters of a case). *)
From TxV Require Import Core.Base Model.PegSyntax Model.Peg Model.KwDefs Gen.SrcKw.

(* ---------------------------------------------------------------- character classes *)
Definition ascii_digit (c : N) : bool := (N.leb 48 c && N.leb c 57)%bool.
Definition ascii_word (c : N) : bool :=
  (ascii_digit c || (N.leb 65 c && N.leb c 90) || (N.leb 97 c && N.leb c 122) || N.eqb c 95)%bool.
Definition wordc_of (extra : list N) (c : N) : bool := (ascii_word c || existsb (N.eqb c) extra)%bool.
Definition digitc_of (extra : list N) (c : N) : bool := (ascii_digit c || existsb (N.eqb c) extra)%bool.

Definition ascii_lower (c : N) : N := if (N.leb 65 c && N.leb c 90)%bool then (c + 32)%N else c.

(* the pattern and the suffix the model below transcribes *)
Definition modelled_kw_pattern : list N := [91;94;92;100;92;87;93;92;119;42]%N.   (* [^\d\W]\w* *)
Definition modelled_kw_suffix : list N := [92;98]%N.                              (* \b *)

Section Cls.
Variable wordc : N -> bool.
Variable digitc : N -> bool.

(* ---------------------------------------------------------------- detection *)
(* length of the longest prefix of word characters: greedy \w* (no backtracking is needed
   because nothing follows it in the pattern) *)
Fixpoint word_run (s : list N) : nat :=
  match s with
  | c :: r => if wordc c then S (word_run r) else 0
  | [] => 0
  end.

(* keyword_regex.match(to_match): end of the match of [^\d\W]\w* at position 0 *)
Definition kw_regex_end (t : list N) : option nat :=
  match t with
  | c :: r => if (negb (digitc c) && wordc c)%bool then Some (S (word_run r)) else None
  | [] => None
  end.

(* match and match.span() == (0, len(to_match)) *)
Definition kw_like (t : list N) : bool :=
  match kw_regex_end t with
  | Some e => Nat.eqb e (length t)
  | None => false
  end.

(* ---------------------------------------------------------------- the terminals *)
(* what visit_str_match / visit_re_match construct *)
Inductive term_spec :=
| TStr (t : list N) (icase : bool)                          (* StrMatch(t, ignore_case=icase) *)
| TRegex (pat : list N) (icase : bool) (repr : list N).     (* RegExMatch(pat, ignore_case=icase, str_repr=repr) *)

Definition icase_of (a : icase_arg) (mm_icase : bool) : bool :=
  match a with IcMM => mm_icase | IcConst b => b | IcAbsent => false end.

Definition compile_lit (autokwd icase : bool) (t : list N) : term_spec :=
  if ((if src_kw_guard_is_autokwd then autokwd else true) &&
      (if src_kw_full_span then kw_like t else match kw_regex_end t with Some _ => true | None => false end))%bool
  then TRegex (src_kw_prefix ++ t ++ src_kw_suffix) (icase_of src_kw_icase icase) t
  else TStr t (icase_of src_str_icase icase).

Definition compile_regex (icase : bool) (pat : list N) : term_spec :=
  TRegex pat (icase_of src_re_icase icase) pat.

Definition spec_icase (s : term_spec) : bool :=
  match s with TStr _ b => b | TRegex _ b _ => b end.

(* ---------------------------------------------------------------- matching *)
Variable lower : N -> N.          (* per-character case folding (str.lower / re.IGNORECASE) *)

Definition ceq (icase : bool) (a b : N) : bool :=
  if icase then N.eqb (lower a) (lower b) else N.eqb a b.

(* StrMatch._parse: input[p:p+len(t)] == t   (both lowered with ignore_case) *)
Fixpoint lit_prefix (icase : bool) (t s : list N) : bool :=
  match t, s with
  | [], _ => true
  | x :: t', y :: s' => (ceq icase x y && lit_prefix icase t' s')%bool
  | _ :: _, [] => false
  end.
Definition str_match (icase : bool) (t : list N) (input : list N) (p : nat) : option nat :=
  if lit_prefix icase t (skipn p input) then Some (length t) else None.

(* \b at position q: exactly one of the characters before and after q is a word character
   (outside the text counts as a non-word character) *)
Definition word_at (input : list N) (q : nat) : bool :=
  match nth_error input q with Some c => wordc c | None => false end.
Definition word_before (input : list N) (q : nat) : bool :=
  match q with 0 => false | S q' => word_at input q' end.
Definition boundary (input : list N) (q : nat) : bool :=
  xorb (word_before input q) (word_at input q).

(* RegExMatch(`<t>\b`).match(input, p): the literal, then a word boundary.  [t] consists of
   word characters only (it is keyword-like), so the literal part can match in one way only. *)
Definition kw_match (icase : bool) (t : list N) (input : list N) (p : nat) : option nat :=
  if (lit_prefix icase t (skipn p input) && boundary input (p + length t))%bool
  then Some (length t) else None.

End Cls.

(* ---------------------------------------------------------------- tables *)
(* all whitespace sets the interpreter can be in are subsets of this *)
Definition ws_universe (g : grammar) (cfg : config) : list N :=
  c_ws cfg ++ flat_map (fun nd => match n_ws nd with Some w => w | None => [] end) (g_nodes g).

Definition kind_oid (k : kind) : option nat :=
  match k with KStr _ (Some o) => Some o | KRegex o => Some o | _ => None end.

(* every StrMatch of the table is an ignore_case one *)
Definition all_str_icase (g : grammar) : bool :=
  forallb (fun nd => match n_kind nd with KStr _ None => false | _ => true end) (g_nodes g).

Definition oid_icase (oid : option nat) : bool := match oid with Some _ => true | None => false end.

(* ---------------------------------------------------------------- decidable instance checks
   (evaluated by the harness on every case: they decide, for the concrete tables / oracle tables /
   texts of a case, the hypotheses of the theorems of Props/C20.v and Props/C21.v, positions
   0..length of the text) *)
Definition lower_of (pairs : list (N * N)) (c : N) : N :=
  match find (fun pr => N.eqb (fst pr) c) pairs with
  | Some pr => snd pr
  | None => ascii_lower c
  end.

Definition opt_nat_eqb (a b : option nat) : bool :=
  match a, b with
  | Some x, Some y => Nat.eqb x y
  | None, None => true
  | _, _ => false
  end.

Definition memN (c : N) (l : list N) : bool := existsb (N.eqb c) l.
Definition char_okb (U : list N) (a b : N) : bool :=
  (N.eqb a b || (negb (memN a U) && negb (memN b U)))%bool.

Fixpoint forall2b {A B} (f : A -> B -> bool) (l : list A) (l' : list B) : bool :=
  match l, l' with
  | [], [] => true
  | x :: l1, y :: l1' => (f x y && forall2b f l1 l1')%bool
  | _, _ => false
  end.

Definition kind_oids (g : grammar) : list nat :=
  flat_map (fun nd => match kind_oid (n_kind nd) with Some o => [o] | None => [] end) (g_nodes g).

Definition positions (input : list N) : list nat := seq 0 (S (length input)).

(* the answers of one oracle in a harness table, in table order: (position, length) *)
Notation table := (list ((nat * nat) * nat)) (only parsing).
Definition orc_row (tbl : table) (o : nat) : list (nat * nat) :=
  flat_map (fun e => if Nat.eqb (fst (fst e)) o then [(snd (fst e), snd e)] else []) tbl.
(* the answers of a modelled terminal at the positions of the text, ascending *)
Definition expected_row (f : nat -> option nat) (input : list N) : list (nat * nat) :=
  flat_map (fun p => match f p with Some l => [(p, l)] | None => [] end) (positions input).
Definition row_eqb (a b : list (nat * nat)) : bool :=
  forall2b (fun x y => (Nat.eqb (fst x) (fst y) && Nat.eqb (snd x) (snd y))%bool) a b.

(* C20: hypotheses of C20_terminal_congruence / C20_invariant for one pair of texts
   (oracle tables of the original and of the variant) *)
Definition c20_hyp_b (lower : N -> N) (g : grammar) (cfg : config) (tbl tbl' : table) (s s' : list N) : bool :=
  (all_str_icase g &&
   forall2b (char_okb (ws_universe g cfg)) s s' &&
   forall2b (fun a b => N.eqb (lower a) (lower b)) s s' &&
   forallb (fun o => row_eqb (orc_row tbl o) (orc_row tbl' o)) (kind_oids g))%bool.

(* C21: the pair (plain table, autokwd table) for one text *)
Section KwCheck.
Variable wordc : N -> bool.
Variable digitc : N -> bool.
Variable lower : N -> N.
Variable input : list N.
Variables tbl tbl' : table.

Definition kw_pair_ok (k k' : kind) : bool :=
  match k, k' with
  | KEOF, KEOF => true
  | KStr t oid, KStr t' oid' =>
    (str_eqb t t' &&
     match oid, oid' with
     | None, None => true
     | Some o, Some o' => row_eqb (orc_row tbl o) (orc_row tbl' o')
     | _, _ => false
     end)%bool
  | KRegex o, KRegex o' => row_eqb (orc_row tbl o) (orc_row tbl' o')
  | KStr t oid, KRegex o' =>
    (kw_like wordc digitc t &&
     row_eqb (orc_row tbl' o') (expected_row (kw_match wordc lower (oid_icase oid) t input) input) &&
     match oid with
     | Some o => row_eqb (orc_row tbl o) (expected_row (str_match lower true t input) input)
     | None => true
     end)%bool
  | _, _ => false
  end.

Definition kw_tables_ok (g g' : grammar) : bool :=
  forall2b (fun nd nd' =>
              if is_match_kind (n_kind nd)
              then (Bool.eqb (n_suppress nd') (n_suppress nd) && kw_pair_ok (n_kind nd) (n_kind nd'))%bool
              else negb (is_match_kind (n_kind nd')))
           (g_nodes g) (g_nodes g').

(* no keyword-like literal of the plain table is immediately followed by a word character *)
Definition no_glue_ok (g : grammar) : bool :=
  forallb (fun nd =>
             match n_kind nd with
             | KStr t oid =>
               if kw_like wordc digitc t
               then forallb (fun p => (negb (lit_prefix lower (oid_icase oid) t (skipn p input))
                                       || negb (word_at wordc input (p + length t)))%bool)
                            (positions input)
               else true
             | _ => true
             end) (g_nodes g).
End KwCheck.

(* ---- the complete C21 instance check (also compares the non-terminal nodes) *)
Definition kind_nonmatch_eqb (k k' : kind) : bool :=
  match k, k' with
  | KSeq, KSeq | KChoice, KChoice | KOpt, KOpt | KStar, KStar | KPlus, KPlus | KUnord, KUnord
  | KAnd, KAnd | KNot, KNot | KEmpty, KEmpty => true
  | _, _ => false
  end.
Definition opt_eqb {A} (f : A -> A -> bool) (a b : option A) : bool :=
  match a, b with
  | Some x, Some y => f x y
  | None, None => true
  | _, _ => false
  end.
Definition node_eqb (a b : node) : bool :=
  (kind_nonmatch_eqb (n_kind a) (n_kind b) && forall2b Nat.eqb (n_kids a) (n_kids b) &&
   opt_eqb Nat.eqb (n_sep a) (n_sep b) && Bool.eqb (n_eolterm a) (n_eolterm b) &&
   str_eqb (n_rule a) (n_rule b) && Bool.eqb (n_root a) (n_root b) &&
   Bool.eqb (n_suppress a) (n_suppress b) && opt_eqb str_eqb (n_ws a) (n_ws b) &&
   opt_eqb Bool.eqb (n_skipws a) (n_skipws b))%bool.

Definition kw_case_ok (wordc digitc : N -> bool) (lower : N -> N) (input : list N)
           (tbl tbl' : list ((nat * nat) * nat)) (g g' : grammar) : bool :=
  (forall2b (fun nd nd' =>
               if is_match_kind (n_kind nd)
               then (Bool.eqb (n_suppress nd') (n_suppress nd) &&
                     kw_pair_ok wordc digitc lower input tbl tbl' (n_kind nd) (n_kind nd'))%bool
               else node_eqb nd nd')
            (g_nodes g) (g_nodes g') &&
   Nat.eqb (g_top g') (g_top g) && opt_eqb Nat.eqb (g_comments g') (g_comments g))%bool.
