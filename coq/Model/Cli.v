(* Model of the custom-argument loop and the declared-parameter validation of
   textx/cli/generate.py, and of the exit status of `textx check`.  The branch-specific
   facts (which branch normalises the key, the strip set) come from Gen/SrcCli.v. *)
From TxV Require Import Core.Base Gen.SrcCli.

Definition dash : N := 45%N.
Definition underscore : N := 95%N.
Definition normalize (s : list N) : list N := map (fun c => if N.eqb c dash then underscore else c) s.

Definition in_set (cs : list N) (c : N) : bool := existsb (N.eqb c) cs.
Fixpoint lstrip (cs s : list N) : list N :=
  match s with
  | c :: s' => if in_set cs c then lstrip cs s' else s
  | [] => []
  end.
Definition strip (cs s : list N) : list N := rev (lstrip cs (rev (lstrip cs s))).

Definition is_switch (m : list N) : bool := is_prefix switch_prefix m.
Definition arg_name (m : list N) : list N := skipn (length switch_prefix) m.

Inductive aval := ATrue | AStr (s : list N).

(* Python dict assignment: replace in place when present, else append *)
Fixpoint dset (k : list N) (v : aval) (d : list (list N * aval)) : list (list N * aval) :=
  match d with
  | [] => [(k, v)]
  | (k', v') :: d' => if str_eqb k k' then (k, v) :: d' else (k', v') :: dset k v d'
  end.

Definition key_of (normalised : bool) (name : list N) : list N :=
  if normalised then normalize name else name.

(* the loop; returns (model files, custom_args) *)
Fixpoint parse_loop (args : list (list N)) (files : list (list N)) (d : list (list N * aval))
  : list (list N) * list (list N * aval) :=
  match args with
  | [] => (files, d)
  | m :: rest =>
      if is_switch m then
        match rest with
        | [] => (files, dset (key_of bool_key_normalised (arg_name m)) ATrue d)
        | v :: rest' =>
            if is_switch v then parse_loop rest files (dset (key_of bool_key_normalised (arg_name m)) ATrue d)
            else parse_loop rest' files (dset (key_of value_key_normalised (arg_name m)) (AStr (strip strip_chars v)) d)
        end
      else parse_loop rest (files ++ [m]) d
  end.

Definition custom_args (args : list (list N)) := snd (parse_loop args [] []).
Definition model_files (args : list (list N)) := fst (parse_loop args [] []).

(* The documented behaviour: every --name is passed under the normalised name. *)
Definition quotes : list N := [34; 39]%N.
Fixpoint spec_loop (args : list (list N)) (files : list (list N)) (d : list (list N * aval)) :=
  match args with
  | [] => (files, d)
  | m :: rest =>
      if is_prefix [45;45]%N m then
        match rest with
        | [] => (files, dset (normalize (skipn 2 m)) ATrue d)
        | v :: rest' =>
            if is_prefix [45;45]%N v then spec_loop rest files (dset (normalize (skipn 2 m)) ATrue d)
            else spec_loop rest' files (dset (normalize (skipn 2 m)) (AStr (strip quotes v)) d)
        end
      else spec_loop rest (files ++ [m]) d
  end.

(* declared-parameter validation *)
Record gparam := { pname : list N; pmandatory : bool }.
Inductive verdict := Accept | MissingMandatory (p : list N) | Undeclared (p : list N).

Definition validate (decl : option (list gparam)) (given : list (list N)) : verdict :=
  match decl with
  | None => Accept
  | Some ps =>
      match find (fun p => pmandatory p && negb (mem_str (pname p) given)) ps with
      | Some p => MissingMandatory (pname p)
      | None =>
          match given, ps with
          | [], _ => Accept
          | _, [] => Accept
          | _, _ => match find (fun g => negb (mem_str g (map pname ps))) given with
                    | Some g => Undeclared g
                    | None => Accept
                    end
          end
      end
  end.

Definition exit_of_verdict (v : verdict) : nat := match v with Accept => 0 | _ => error_exit_status end.

(* textx check: files are loaded in order, the first failure exits with the error status *)
Fixpoint check_exit (loads_ok : list bool) : nat :=
  match loads_ok with
  | [] => 0
  | true :: r => check_exit r
  | false :: _ => error_exit_status
  end.

(* textx generate: after the argument loop, each model file is loaded (an invalid one ends
   the run with the error status), the generator registered for the file's language is
   looked up, the given arguments are validated against its declaration, and it is called
   with all custom arguments. *)
Fixpoint assoc {A} (k : list N) (l : list (list N * A)) : option A :=
  match l with
  | [] => None
  | (k', v) :: l' => if str_eqb k k' then Some v else assoc k l'
  end.

Fixpoint gen_run (files : list (list N)) (info : list (list N * (bool * nat)))
         (decl : nat -> option (list gparam)) (given : list (list N)) : nat * list (list N * nat) :=
  match files with
  | [] => (0, [])
  | f :: r =>
      match assoc f info with
      | Some (true, lang) =>
          match validate (decl lang) given with
          | Accept => let '(e, calls) := gen_run r info decl given in (e, (f, lang) :: calls)
          | _ => (error_exit_status, [])
          end
      | _ => (error_exit_status, [])
      end
  end.

Definition generate (args : list (list N)) (info : list (list N * (bool * nat)))
           (decl : nat -> option (list gparam)) :=
  let '(files, d) := parse_loop args [] [] in
  match files with
  | [] => (error_exit_status, [], d)
  | _ => let '(e, calls) := gen_run files info decl (map fst d) in (e, calls, d)
  end.

(* ---- the whole command: options, the per-file loop, generator selection ----
   Languages are numbers; `any_lang` stands for the language name "any".
   --language L fixes the meta-model and the generator language for every file, --grammar G uses
   the meta-model built from G (with --ignore-case) and the language "any"; otherwise both are
   deduced for every file from its name.  The generator is looked up for every file by that
   file's language (falling back to the "any" generator only when the language was deduced). *)
Inductive lang_mode := PerFile | Explicit (l : nat) | FromGrammar.
Definition any_lang : nat := 2.
Record finfo := { f_lang : option nat;          (* the registered language whose pattern matches the file name *)
                  f_valid : nat -> bool }.      (* does the file parse with the meta-model of language l (any_lang: the --grammar one) *)

Definition is_per_file (m : lang_mode) : bool := match m with PerFile => true | _ => false end.
Definition lang_for (m : lang_mode) (fi : finfo) : option nat :=
  match m with
  | PerFile => f_lang fi
  | Explicit l => Some l
  | FromGrammar => if grammar_forces_any then Some any_lang else f_lang fi
  end.

(* registry: for a language, is a generator registered for the target, and its declared parameters *)
Definition lookup (reg : nat -> option (option (list gparam))) (l : nat) (any_permitted : bool)
  : option (nat * option (list gparam)) :=
  match reg l with
  | Some g => Some (l, g)
  | None => if any_permitted then match reg any_lang with Some g => Some (any_lang, g) | None => None end else None
  end.

(* calls: (file, language of the generator that ran, language of the meta-model that parsed the file) *)
Fixpoint gen_files (files : list (list N)) (first : option nat) (info : list (list N * finfo)) (m : lang_mode)
         (reg : nat -> option (option (list gparam))) (given : list (list N)) : nat * list (list N * nat * nat) :=
  match files with
  | [] => (0, [])
  | f :: r =>
      match assoc f info with
      | None => (error_exit_status, [])
      | Some fi =>
          match lang_for m fi with
          | None => (error_exit_status, [])
          | Some l =>
              if f_valid fi l then
                let key := if lookup_per_file then l else match first with Some l0 => l0 | None => l end in
                match lookup reg key (if any_permitted_iff_deduced then is_per_file m else false) with
                | None => (error_exit_status, [])
                | Some (gl, decl) =>
                    match validate decl given with
                    | Accept => let '(e, calls) := gen_files r (match first with Some _ => first | None => Some l end) info m reg given in
                                (e, (f, gl, l) :: calls)
                    | _ => (error_exit_status, [])
                    end
                end
              else (error_exit_status, [])
          end
      end
  end.

(* no model file but custom arguments: the generator runs once without a model, for the language "textx"
   (number 3) when none was given.  With --grammar the language is "any", which is not a registered
   language, so the meta-model lookup fails. *)
Definition textx_lang : nat := 3.
Definition gen_nomodel (m : lang_mode) (reg : nat -> option (option (list gparam))) (given : list (list N))
  : nat * list (list N * nat * nat) :=
  match (match m with PerFile => Some textx_lang | Explicit l => Some l | FromGrammar => None end) with
  | None => (error_exit_status, [])
  | Some l =>
      match lookup reg l (if any_permitted_iff_deduced then is_per_file m else false) with
      | Some (gl, decl) => match validate decl given with Accept => (0, [([], gl, l)]) | _ => (error_exit_status, []) end
      | None => (error_exit_status, [])
      end
  end.

Definition generate_cmd (args : list (list N)) (info : list (list N * finfo)) (m : lang_mode)
           (reg : nat -> option (option (list gparam))) :=
  let '(files, d) := parse_loop args [] [] in
  match files with
  | [] => match d with
          | [] => (error_exit_status, [], d)
          | _ => let '(e, calls) := gen_nomodel m reg (map fst d) in (e, calls, d)
          end
  | _ => let '(e, calls) := gen_files files None info m reg (map fst d) in (e, calls, d)
  end.

(* textx check with the same options *)
Definition file_loads (m : lang_mode) (info : list (list N * finfo)) (f : list N) : bool :=
  match assoc f info with
  | None => false
  | Some fi => match lang_for m fi with Some l => f_valid fi l | None => false end
  end.
Definition check_cmd (m : lang_mode) (info : list (list N * finfo)) (files : list (list N)) : nat :=
  check_exit (map (file_loads m info) files).

(* The documented behaviour of the per-file loop, written without the translated facts. *)
Definition doc_lang (m : lang_mode) (fi : finfo) : option nat :=
  match m with PerFile => f_lang fi | Explicit l => Some l | FromGrammar => Some any_lang end.
Definition doc_call (info : list (list N * finfo)) (m : lang_mode) (reg : nat -> option (option (list gparam)))
           (given : list (list N)) (f : list N) : option (list N * nat * nat) :=
  match assoc f info with
  | None => None
  | Some fi =>
      match doc_lang m fi with
      | None => None
      | Some l =>
          if f_valid fi l then
            match lookup reg l (is_per_file m) with
            | Some (gl, decl) => match validate decl given with Accept => Some (f, gl, l) | _ => None end
            | None => None
            end
          else None
      end
  end.
Fixpoint doc_calls (calls : list (option (list N * nat * nat))) : nat * list (list N * nat * nat) :=
  match calls with
  | [] => (0, [])
  | Some c :: r => let '(e, cs) := doc_calls r in (e, c :: cs)
  | None :: _ => (1, [])
  end.
