(* Model of the custom-argument loop and the declared-parameter validation of
   textx/cli/generate.py, and of the exit status of `textx check`.  The branch-specific
   facts (which branch normalises the key, the strip set) come from Gen/SrcCli.v. *)
From TxV Require Import Core.Base Gen.SrcCli.

Definition dash : N := 45%N.
Definition underscore : N := 95%N.
Definition normalize (s : list N) : list N := map (fun c => if N.eqb c dash then underscore else c) s.

Definition in_set (cs : list N) (c : N) : bool := existsb (N.eqb c) cs.
Fixpoint lstrip (cs s : list N) : list N :=
  match s with
  | c :: s' => if in_set cs c then lstrip cs s' else s
  | [] => []
  end.
Definition strip (cs s : list N) : list N := rev (lstrip cs (rev (lstrip cs s))).

Definition is_switch (m : list N) : bool := is_prefix switch_prefix m.
Definition arg_name (m : list N) : list N := skipn (length switch_prefix) m.

Inductive aval := ATrue | AStr (s : list N).

(* Python dict assignment: replace in place when present, else append *)
Fixpoint dset (k : list N) (v : aval) (d : list (list N * aval)) : list (list N * aval) :=
  match d with
  | [] => [(k, v)]
  | (k', v') :: d' => if str_eqb k k' then (k, v) :: d' else (k', v') :: dset k v d'
  end.

Definition key_of (normalised : bool) (name : list N) : list N :=
  if normalised then normalize name else name.

(* the loop; returns (model files, custom_args) *)
Fixpoint parse_loop (args : list (list N)) (files : list (list N)) (d : list (list N * aval))
  : list (list N) * list (list N * aval) :=
  match args with
  | [] => (files, d)
  | m :: rest =>
      if is_switch m then
        match rest with
        | [] => (files, dset (key_of bool_key_normalised (arg_name m)) ATrue d)
        | v :: rest' =>
            if is_switch v then parse_loop rest files (dset (key_of bool_key_normalised (arg_name m)) ATrue d)
            else parse_loop rest' files (dset (key_of value_key_normalised (arg_name m)) (AStr (strip strip_chars v)) d)
        end
      else parse_loop rest (files ++ [m]) d
  end.

Definition custom_args (args : list (list N)) := snd (parse_loop args [] []).
Definition model_files (args : list (list N)) := fst (parse_loop args [] []).

(* The documented behaviour: every --name is passed under the normalised name. *)
Definition quotes : list N := [34; 39]%N.
Fixpoint spec_loop (args : list (list N)) (files : list (list N)) (d : list (list N * aval)) :=
  match args with
  | [] => (files, d)
  | m :: rest =>
      if is_prefix [45;45]%N m then
        match rest with
        | [] => (files, dset (normalize (skipn 2 m)) ATrue d)
        | v :: rest' =>
            if is_prefix [45;45]%N v then spec_loop rest files (dset (normalize (skipn 2 m)) ATrue d)
            else spec_loop rest' files (dset (normalize (skipn 2 m)) (AStr (strip quotes v)) d)
        end
      else spec_loop rest (files ++ [m]) d
  end.

(* declared-parameter validation *)
Record gparam := { pname : list N; pmandatory : bool }.
Inductive verdict := Accept | MissingMandatory (p : list N) | Undeclared (p : list N).

Definition validate (decl : option (list gparam)) (given : list (list N)) : verdict :=
  match decl with
  | None => Accept
  | Some ps =>
      match find (fun p => pmandatory p && negb (mem_str (pname p) given)) ps with
      | Some p => MissingMandatory (pname p)
      | None =>
          match given, ps with
          | [], _ => Accept
          | _, [] => Accept
          | _, _ => match find (fun g => negb (mem_str g (map pname ps))) given with
                    | Some g => Undeclared g
                    | None => Accept
                    end
          end
      end
  end.

Definition exit_of_verdict (v : verdict) : nat := match v with Accept => 0 | _ => error_exit_status end.

(* textx check: files are loaded in order, the first failure exits with the error status *)
Fixpoint check_exit (loads_ok : list bool) : nat :=
  match loads_ok with
  | [] => 0
  | true :: r => check_exit r
  | false :: _ => error_exit_status
  end.

(* textx generate: after the argument loop, each model file is loaded (an invalid one ends
   the run with the error status), the generator registered for the file's language is
   looked up, the given arguments are validated against its declaration, and it is called
   with all custom arguments. *)
Fixpoint assoc {A} (k : list N) (l : list (list N * A)) : option A :=
  match l with
  | [] => None
  | (k', v) :: l' => if str_eqb k k' then Some v else assoc k l'
  end.

Fixpoint gen_run (files : list (list N)) (info : list (list N * (bool * nat)))
         (decl : nat -> option (list gparam)) (given : list (list N)) : nat * list (list N * nat) :=
  match files with
  | [] => (0, [])
  | f :: r =>
      match assoc f info with
      | Some (true, lang) =>
          match validate (decl lang) given with
          | Accept => let '(e, calls) := gen_run r info decl given in (e, (f, lang) :: calls)
          | _ => (error_exit_status, [])
          end
      | _ => (error_exit_status, [])
      end
  end.

Definition generate (args : list (list N)) (info : list (list N * (bool * nat)))
           (decl : nat -> option (list gparam)) :=
  let '(files, d) := parse_loop args [] [] in
  match files with
  | [] => (error_exit_status, [], d)
  | _ => let '(e, calls) := gen_run files info decl (map fst d) in (e, calls, d)
  end.
