(* Data types shared by the generated Gen/SrcPlain.v and the default-resolution model (C07). *)
From TxV Require Import Core.Base.

(* `len(result_lst) <cmp> k` tests of PlainName.__call__ and what each branch does *)
Inductive cmp := CmpEq | CmpNe | CmpLt | CmpLe | CmpGt | CmpGe.
Inductive act :=
| ActPick (i : nat)      (* result = result_lst[i] *)
| ActNotUnique           (* raise TextXSemanticError(f"name {obj_name} is not unique.") *)
| ActNone.               (* result = None *)

(* pieces of the two error-message f-strings *)
Inductive mpart := MLit (s : list N) | MName | MCls.

(* the conjuncts of the selector handed to get_children, in evaluation order *)
Inductive selconj := SHasName | SNameEq | SIsInstance.

Definition cmp_eval (c : cmp) (n k : nat) : bool :=
  match c with
  | CmpEq => Nat.eqb n k
  | CmpNe => negb (Nat.eqb n k)
  | CmpLt => Nat.ltb n k
  | CmpLe => Nat.leb n k
  | CmpGt => Nat.ltb k n
  | CmpGe => Nat.leb k n
  end.
