(* C05 — executable model of the navigation API of textx/model.py
     get_model (68-75), get_parent_of_type (85-103), get_children (106-161),
     get_children_of_type (164-194)
   and of the `parent` link assigned by parse_tree_to_objgraph.process_node (664-679).

   A loaded model is a containment tree.  Every model object (an instance of a class with
   `_tx_attrs`) is a [Node] carrying the integer that stands for Python's `id(obj)`, its class
   name and its attribute slots in `cls._tx_attrs` order; a slot carries the meta-attribute
   facts the code looks at (`attr.cont`, `attr.mult in (MULT_ONE, MULT_OPTIONAL)`) and the
   values (for a single-valued slot: [] is None, otherwise the head is the value).  Values
   without `_tx_attrs` (str/int/float/bool) are [Prim]; a resolved non-containment reference
   is [Ref target-id].  No proofs here. *)
From TxV Require Import Core.Base.

Record ameta := { aname : list N; acont : bool; amany : bool }.

Inductive obj :=
| Prim (kind : N) (text : list N)
| Ref (target : N)
| Node (oid : N) (cls : list N) (slots : list (ameta * list obj)).

Definition is_node (o : obj) : bool := match o with Node _ _ _ => true | _ => false end.
Definition obj_id (o : obj) : N := match o with Node id _ _ => id | Ref t => t | Prim _ _ => 0%N end.
Definition obj_cls (o : obj) : list N := match o with Node _ c _ => c | _ => [] end.
Definition obj_slots (o : obj) : list (ameta * list obj) := match o with Node _ _ s => s | _ => [] end.

(* the values the traversal looks at in one slot: the list, or the single non-None value *)
Definition slot_vals (m : ameta) (vs : list obj) : list obj :=
  if amany m then vs else match vs with [] => [] | v :: _ => [v] end.

Definition mem_N (x : N) (l : list N) : bool := existsb (N.eqb x) l.

(* ------------------------------------------------------------------ get_children *)
(* `collected` (append order) and `collected_ids` *)
Definition state := (list obj * list N)%type.
Definition collect (o : obj) (id : N) (st : state) : state := (fst st ++ [o], id :: snd st).

(* `for new_elem in new_elem_list: if should_follow(new_elem): follow(new_elem)` *)
Definition follow_elems (F : obj -> state -> state) (sf : obj -> bool) : list obj -> state -> state :=
  fix elems (vs : list obj) (st : state) : state :=
    match vs with
    | [] => st
    | v :: vs' => elems vs' (if sf v then F v st else st)
    end.

(* `for attr_name, attr in cls._tx_attrs.items(): if attr.cont: ...` *)
Definition follow_attrs (F : obj -> state -> state) (sf : obj -> bool)
  : list (ameta * list obj) -> state -> state :=
  fix attrs (ss : list (ameta * list obj)) (st : state) : state :=
    match ss with
    | [] => st
    | (m, vs) :: ss' =>
        attrs ss'
          (if acont m then
             if amany m then follow_elems F sf vs st            (* `if new_elem_list:` then the loop *)
             else match vs with
                  | [] => st                                      (* new_elem is None *)
                  | v :: _ => if sf v then F v st else st
                  end
           else st)
    end.

(* the inner function `follow(elem)`; selector is only applied to objects with `_tx_attrs`;
   should_follow is applied to every non-None contained value, never to the root *)
Fixpoint follow (sel sf : obj -> bool) (cf : bool) (elem : obj) (st : state) {struct elem} : state :=
  match elem with
  | Node id _ slots =>
      if mem_N id (snd st) then st
      else
        let st1 := if (negb cf && sel elem)%bool then collect elem id st else st in
        let st2 := follow_attrs (follow sel sf cf) sf slots st1 in
        if (cf && sel elem)%bool then collect elem id st2 else st2
  | _ => st
  end.

Definition get_children (sel : obj -> bool) (root : obj) (cf : bool) (sf : obj -> bool) : list obj :=
  fst (follow sel sf cf root ([], [])).

(* `typ` is a string or a class; a class is replaced by its __name__ *)
Inductive typ_arg := TStr (s : list N) | TCls (name : list N).
Definition typ_name (t : typ_arg) : list N := match t with TStr s => s | TCls n => n end.
Definition cls_is (typ : list N) (o : obj) : bool := str_eqb (obj_cls o) typ.

Definition get_children_of_type (t : typ_arg) (root : obj) (cf : bool) (sf : obj -> bool) : list obj :=
  get_children (cls_is (typ_name t)) root cf sf.

(* ------------------------------------------------------------------ specification walk *)
(* pre-order (children_first = false) or post-order walk of the containment tree, pruned at
   the contained values rejected by should_follow (not applied to the root) *)
Fixpoint walk (sf : obj -> bool) (cf : bool) (o : obj) {struct o} : list obj :=
  match o with
  | Node _ _ slots =>
      let below :=
        flat_map (fun mvs : ameta * list obj =>
                    if acont (fst mvs) then
                      if amany (fst mvs) then flat_map (fun v => if sf v then walk sf cf v else []) (snd mvs)
                      else match snd mvs with
                           | [] => []
                           | v :: _ => if sf v then walk sf cf v else []
                           end
                    else []) slots in
      if cf then below ++ [o] else o :: below
  | _ => []
  end.

(* every model object of the containment tree, parents first *)
Definition nodes (o : obj) : list obj := walk (fun _ => true) false o.
Definition uniq (o : obj) : Prop := NoDup (map obj_id (nodes o)).

(* direct containment: c is a model object held by a containment slot of p *)
Definition cont_child (p c : obj) : Prop :=
  is_node c = true /\
  exists m vs, In (m, vs) (obj_slots p) /\ acont m = true /\ In c (slot_vals m vs).

(* [up_chain o [p1; p2; ...; pn]]: p1 contains o, p2 contains p1, ... *)
Fixpoint up_chain (o : obj) (l : list obj) : Prop :=
  match l with
  | [] => True
  | p :: l' => cont_child p o /\ up_chain p l'
  end.

(* objects reached from root through containment links whose target should_follow accepts *)
Inductive reach (sf : obj -> bool) (root : obj) : obj -> Prop :=
| reach_root : is_node root = true -> reach sf root root
| reach_step : forall p c, reach sf root p -> cont_child p c -> sf c = true -> reach sf root c.

(* ------------------------------------------------------------------ parent links (the heap) *)
(* what the Python attribute `parent` of a model object holds: a model object or something
   without a `parent` attribute of its own (None, a number, a string, a list) *)
Inductive pval := PObj (id : N) | POther.
Record hobj := { hcls : list N; hparent : option pval }.   (* None: hasattr(obj, "parent") is False *)
Definition heap := list (N * hobj).

Definition s_parent : list N := [112; 97; 114; 101; 110; 116]%N.    (* "parent" *)

Definition find_slot (n : list N) (slots : list (ameta * list obj)) : option (ameta * list obj) :=
  find (fun mvs => str_eqb (aname (fst mvs)) n) slots.

Definition slot_pval (mvs : ameta * list obj) : pval :=
  if amany (fst mvs) then POther
  else match snd mvs with
       | Node id _ _ :: _ => PObj id
       | Ref t :: _ => PObj t
       | _ => POther
       end.

(* process_node: `_init_obj_attrs` gives every grammar attribute (also one called `parent`) its
   default; after the children are processed and the instance is popped,
   `if parser._inst_stack: obj_attrs.parent = parser._inst_stack[-1][0]`; a resolved
   non-containment reference called `parent` is stored later and overwrites that. *)
Definition parent_attr (stack : list N) (slots : list (ameta * list obj)) : option pval :=
  let base := match stack with
              | top :: _ => Some (PObj top)
              | [] => option_map slot_pval (find_slot s_parent slots)
              end in
  match find_slot s_parent slots with
  | Some (m, v :: vs) => if acont m then base else Some (slot_pval (m, v :: vs))
  | _ => base
  end.

(* [stack] is parser._inst_stack (top first) at the moment the node is entered *)
Fixpoint build (stack : list N) (o : obj) {struct o} : heap :=
  match o with
  | Node id c slots =>
      (id, {| hcls := c; hparent := parent_attr stack slots |}) ::
      flat_map (fun mvs : ameta * list obj =>
                  if acont (fst mvs) then
                    if amany (fst mvs) then flat_map (build (id :: stack)) (snd mvs)
                    else match snd mvs with
                         | [] => []
                         | v :: _ => build (id :: stack) v
                         end
                  else []) slots
  | _ => []
  end.

Definition heap_of (root : obj) : heap := build [] root.

Fixpoint lookup (id : N) (h : heap) : option hobj :=
  match h with
  | [] => None
  | (k, v) :: h' => if N.eqb k id then Some v else lookup id h'
  end.

(* no grammar attribute is called `parent` anywhere in the tree (the well-formedness
   predicate of the parent/get_model/get_parent_of_type theorems; its negation is the
   classifier of the known finding) *)
Definition no_parent_attr (o : obj) : bool :=
  forallb (fun n => match find_slot s_parent (obj_slots n) with None => true | Some _ => false end) (nodes o).

(* `p = obj; while hasattr(p, "parent"): p = p.parent; return p` *)
Inductive gres := GObj (id : N) | GOther | GFuel.
Fixpoint get_model (h : heap) (fuel : nat) (p : N) : gres :=
  match fuel with
  | O => GFuel
  | S f =>
      match lookup p h with
      | None => GOther
      | Some ho =>
          match hparent ho with
          | None => GObj p
          | Some (PObj q) => get_model h f q
          | Some POther => GOther
          end
      end
  end.

(* `while hasattr(obj, "parent"): obj = obj.parent; if obj.__class__.__name__ == typ: return obj`
   then `return None` *)
Inductive pres := PFound (id : N) | PNone | PFuel.
Fixpoint get_parent_of_type (h : heap) (fuel : nat) (typ : list N) (p : N) : pres :=
  match fuel with
  | O => PFuel
  | S f =>
      match lookup p h with
      | None => PNone
      | Some ho =>
          match hparent ho with
          | None => PNone
          | Some (PObj q) =>
              match lookup q h with
              | Some hq => if str_eqb (hcls hq) typ then PFound q else get_parent_of_type h f typ q
              | None => PNone
              end
          | Some POther => PNone
          end
      end
  end.

Definition pres_of (o : option obj) : pres :=
  match o with Some a => PFound (obj_id a) | None => PNone end.

(* ------------------------------------------------------------------ references erased *)
(* the same model with every non-containment slot emptied *)
Fixpoint strip (o : obj) {struct o} : obj :=
  match o with
  | Node id c slots =>
      Node id c (map (fun mvs : ameta * list obj =>
                        (fst mvs, if acont (fst mvs) then map strip (snd mvs) else [])) slots)
  | _ => o
  end.

(* what a selector may look at so that it cannot tell a model from its stripped copy *)
Inductive head := HPrim (kind : N) (text : list N) | HRef (t : N) | HNode (id : N) (c : list N).
Definition head_of (o : obj) : head :=
  match o with Prim k t => HPrim k t | Ref t => HRef t | Node id c _ => HNode id c end.
