(* Bridge between the editor-support model (Model/EdPos.v, trees of object/reference/token
   nodes) and the builder model of C01/C06 (Model/Build.v, process_node on Peg parse trees):
   [abs] reads off a Peg parse tree exactly the nodes process_node visits and turns each
   common-rule node into an object node carrying (tpos, tend) of that parse-tree node; the
   selection of children mirrors pnode (plain assignment: node[0]; list assignment: the
   non-separator children; abstract rule: the child pnode picks; match rules: no objects).
   No proofs here (Proofs/EdPosBuildProofs.v).  Non-containment references are outside
   Build.v's fragment (EUnsup), so [abs] produces no reference nodes. *)
From TxV Require Import Core.Base Model.PegSyntax Model.Peg Model.Build Model.EdPosDefs Gen.SrcEdPos Model.EdPos.

Section Sel.
Variable R : Type.
Variable rec : tree -> R.
Variable crash : R.
(* the choices of Build.first_nonmatch / Build.first_nt, without the builder state *)
Fixpoint sel_nonmatch (kind_of : nat -> option bool) (l : list tree) : option R :=
  match l with
  | [] => None
  | x :: l' =>
    match x with
    | NT xn _ => match kind_of xn with
                 | None => Some crash
                 | Some true => Some (rec x)
                 | Some false => sel_nonmatch kind_of l'
                 end
    | T _ _ _ _ => sel_nonmatch kind_of l'
    end
  end.
Fixpoint sel_nt (has_cls : nat -> bool) (l : list tree) : option R :=
  match l with
  | [] => None
  | x :: l' =>
    match x with
    | NT xn _ => Some (if has_cls xn then rec x else crash)
    | T _ _ _ _ => sel_nt has_cls l'
    end
  end.
End Sel.

Section Abs.
Variable g : grammar.
Variable mm : list ninfo.

Definition nspan (t : tree) : N * N := (N.of_nat (Build.tpos t), N.of_nat (Build.tend t)).

Fixpoint abs (t : tree) : list node :=
  match t with
  | T _ _ _ _ => [NTok (fst (nspan t)) (snd (nspan t))]
  | NT nid kids =>
    match info mm nid with
    | IAsgn _ OpPlain => match kids with k :: _ => abs k | [] => [] end
    | IAsgn _ OpList => flat_map (fun k => if is_sep_of g nid k then [] else abs k) kids
    | IAsgn _ _ => []
    | IRule RCommon _ _ => [NObj nid (fst (nspan t)) (snd (nspan t)) (flat_map abs kids)]
    | IRule RMatch _ _ => [NTok (fst (nspan t)) (snd (nspan t))]
    | IRule RAbstract _ _ =>
      match kids with
      | [] => []
      | k :: rest =>
        match rest with
        | [] => abs k
        | _ :: _ =>
          match sel_nonmatch (list node) abs [] (nonmatch_class mm) kids with
          | Some r => r
          | None => match sel_nt (list node) abs [] (has_class mm) kids with Some r => r | None => [] end
          end
        end
      end
    | ITerm _ _ | IOther => []
    end
  end.

(* the parse-tree nodes process_node turns into objects *)
Fixpoint subtrees (t : tree) : list tree :=
  t :: match t with NT _ kids => flat_map subtrees kids | T _ _ _ _ => [] end.

Definition is_common (t : tree) : Prop :=
  match t with NT nid _ => exists c a, info mm nid = IRule RCommon c a | T _ _ _ _ => False end.
End Abs.

(* spans of the objects inside a built value *)
Fixpoint vspans (v : value) : list (nat * nat) :=
  match v with
  | VObj _ p e attrs => (p, e) :: flat_map (fun kv => match kv with (_, w) => vspans w end) attrs
  | VList l => flat_map vspans l
  | VJoin _ parts => flat_map vspans parts
  | VConv _ w => vspans w
  | _ => []
  end.
Definition valspans (vals : list (list N * value)) : list (nat * nat) :=
  flat_map (fun kv => match kv with (_, w) => vspans w end) vals.
Definition topspans (top : option cur) : list (nat * nat) :=
  match top with Some c => valspans (c_vals c) | None => [] end.
Definition sp (pe : nat * nat) : N * N := (N.of_nat (fst pe), N.of_nat (snd pe)).
Definition ospans (ns : list node) : list (N * N) := map ikey (flat_map objs_post ns).
