(* Bridge between the editor-support model (Model/EdPos.v, trees of object/reference/token
   nodes) and the builder model of C01/C06 (Model/Build.v, process_node on Peg parse trees):
   [abs] reads off a Peg parse tree exactly the nodes process_node visits and turns each
   common-rule node into an object node carrying (tpos, tend) of that parse-tree node; the
   selection of children mirrors pnode (plain assignment: node[0]; list assignment: the
   non-separator children; abstract rule: the child pnode picks; match rules: no objects).
   No proofs here (Proofs/EdPosBuildProofs.v).  A non-containment reference assignment yields a reference node for the child it
   is read from (Build.v: VRef name (tpos k) cls). *)
From TxV Require Import Core.Base Model.PegSyntax Model.Peg Model.Build Model.EdPosDefs Gen.SrcEdPos Model.EdPos.

Section Sel.
Variable R : Type.
Variable rec : tree -> R.
Variable crash : R.
(* the choices of Build.first_nonmatch / Build.first_nt, without the builder state *)
Fixpoint sel_nonmatch (kind_of : nat -> option bool) (l : list tree) : option R :=
  match l with
  | [] => None
  | x :: l' =>
    match x with
    | NT xn _ => match kind_of xn with
                 | None => Some crash
                 | Some true => Some (rec x)
                 | Some false => sel_nonmatch kind_of l'
                 end
    | T _ _ _ _ => sel_nonmatch kind_of l'
    end
  end.
Fixpoint sel_nt (has_cls : nat -> bool) (l : list tree) : option R :=
  match l with
  | [] => None
  | x :: l' =>
    match x with
    | NT xn _ => Some (if has_cls xn then rec x else crash)
    | T _ _ _ _ => sel_nt has_cls l'
    end
  end.
End Sel.

Section Abs.
Variable g : grammar.
Variable mm : list ninfo.

Definition nspan (t : tree) : N * N := (N.of_nat (Build.tpos t), N.of_nat (Build.tend t)).

(* metaattr.ref and not metaattr.cont, looked up in the class of the enclosing object *)
Definition is_refattr (a : list N) (meta : list attr) : bool :=
  match find_attr a meta with Some ma => (a_ref ma && negb (a_cont ma))%bool | None => false end.

(* the reference node made for child k of a reference assignment: ObjCrossRef(position=k.position,
   position_end=k.position_end); the converted name is not tracked here *)
Definition refnode (k : tree) : node := NRef (tree_nid k) (fst (nspan k)) (snd (nspan k)) [].

(* [meta] = _tx_attrs of the class of the enclosing object (what pnode reads from the stack top) *)
Fixpoint abs (meta : list attr) (t : tree) : list node :=
  match t with
  | T _ _ _ _ => [NTok (fst (nspan t)) (snd (nspan t))]
  | NT nid kids =>
    match info mm nid with
    | IAsgn a OpPlain =>
      match kids with
      | k :: _ => (if is_refattr a meta then [refnode k] else []) ++ abs meta k
      | [] => []
      end
    | IAsgn a OpList =>
      flat_map (fun k => if is_sep_of g nid k then []
                         else (if is_refattr a meta then [refnode k] else []) ++ abs meta k) kids
    | IAsgn _ _ => []
    | IRule RCommon _ attrs => [NObj nid (fst (nspan t)) (snd (nspan t)) (flat_map (abs attrs) kids)]
    | IRule RMatch _ _ => [NTok (fst (nspan t)) (snd (nspan t))]
    | IRule RAbstract _ _ =>
      match kids with
      | [] => []
      | k :: rest =>
        match rest with
        | [] => abs meta k
        | _ :: _ =>
          match sel_nonmatch (list node) (abs meta) [] (nonmatch_class mm) kids with
          | Some r => r
          | None => match sel_nt (list node) (abs meta) [] (has_class mm) kids with Some r => r | None => [] end
          end
        end
      end
    | ITerm _ _ | IOther => []
    end
  end.

(* the parse-tree nodes process_node turns into objects *)
Fixpoint subtrees (t : tree) : list tree :=
  t :: match t with NT _ kids => flat_map subtrees kids | T _ _ _ _ => [] end.

Definition is_common (t : tree) : Prop :=
  match t with NT nid _ => exists c a, info mm nid = IRule RCommon c a | T _ _ _ _ => False end.
End Abs.

(* what a built value contains: objects with their spans, pending references with their position *)
Inductive bitem := IObj (s e : N) | IRef (s : N).

Fixpoint vitems (v : value) : list bitem :=
  match v with
  | VObj _ p e attrs => IObj (N.of_nat p) (N.of_nat e) :: flat_map (fun kv => match kv with (_, w) => vitems w end) attrs
  | VRef w p _ => IRef (N.of_nat p) :: vitems w
  | VList l => flat_map vitems l
  | VJoin _ parts => flat_map vitems parts
  | VConv _ w => vitems w
  | _ => []
  end.
Definition valitems (vals : list (list N * value)) : list bitem :=
  flat_map (fun kv => match kv with (_, w) => vitems w end) vals.
Definition topitems (top : option cur) : list bitem :=
  match top with Some c => valitems (c_vals c) | None => [] end.

(* the same for the abstracted tree: registration of objects, collection of references *)
Fixpoint nitems (n : node) : list bitem :=
  match n with
  | NObj _ s e kids => flat_map nitems kids ++ [IObj s e]
  | NRef _ s _ _ => [IRef s]
  | NTok _ _ => []
  end.
Definition oitems (ns : list node) : list bitem := flat_map nitems ns.
