(* C02 — link between the rule bodies of Model/Mult.v and the parser models / parse results of the shared
   PEG core (Model/PegSyntax.v, Model/Peg.v).  Definitions only.

   [den top b nid]: the parsing-expression node [nid] of a dumped grammar [g] (with the per-node metamodel
   information [mm] of Model/Build.v) has the structure of the rule body [b]: decidable, so it can be evaluated
   on the parser model that textX really built.
   [tree_nodes] / [res_nodes]: the assignment nodes that belong to the object under construction in a parse
   result (assignment nodes below the NonTerminal of another rule belong to another object). *)
From TxV Require Import Core.Base Model.MultBase Gen.SrcMult Model.Mult.
From TxV Require Model.Build.
From TxV Require Import Model.PegSyntax Model.Peg.

Section Link.
Variable g : grammar.
Variable mm : list Build.ninfo.
Variable attr_id : list N -> nat.       (* attribute names -> the numbers used in rule bodies *)
Variable conv : tree -> sval.           (* what process_node returns for a child (kept abstract) *)

Definition info (nid : nat) : Build.ninfo := nth nid mm Build.IOther.
Definition is_rule (nid : nat) : bool := match info nid with Build.IRule _ _ _ => true | _ => false end.
Definition sep_name : list N := [115; 101; 112]%N.    (* "sep" *)

Definition tree_nid (t : tree) : nat := match t with T n _ _ _ => n | NT n _ => n end.

(* operator of an `__asgn_*` node: model.py reads it from the rule name; for the list operators the PEG class
   tells `*=` from `+=` *)
Definition asg_op (o : Build.aop) (k : kind) : option asgop :=
  match o, k with
  | Build.OpPlain, KSeq => Some OpPlain
  | Build.OpOptional, KOpt => Some OpBool
  | Build.OpList, KStar => Some OpStar
  | Build.OpList, KPlus => Some OpPlus
  | _, _ => None
  end.

Definition is_list_op (op : asgop) : bool := match op with OpStar | OpPlus => true | _ => false end.

(* a child of the assignment node [nd]: separator node = produced by the repetition's separator expression *)
Definition child_of (nd : node) (op : asgop) (t : tree) : child :=
  Child (is_list_op op && match n_sep nd with Some s => Nat.eqb s (tree_nid t) | None => false end)
        (match get_node g (tree_nid t) with Some c => str_eqb (n_rule c) sep_name | None => false end)
        (conv t).

Definition has_sep (nd : node) : bool := match n_sep nd with Some _ => true | None => false end.

(* the assignment nodes of the current object found in a tree *)
Definition tree_nodes (t : tree) : list anode :=
  match t with
  | T _ _ _ _ => []
  | NT nid kids =>
    match info nid, get_node g nid with
    | Build.IAsgn a o, Some nd =>
      match asg_op o (n_kind nd) with
      | Some op => [ANode (attr_id a) op (is_list_op op && has_sep nd) (map (child_of nd op) kids)]
      | None => []
      end
    | _, _ => []
    end
  end.
Definition res_nodes (r : res) : list anode := flat_map tree_nodes (flatten r).

(* the nodes below the NonTerminal of the rule itself *)
Definition top_nodes (r : res) : list anode :=
  match r with
  | RTree (NT _ kids) => flat_map tree_nodes kids
  | _ => []
  end.

(* ---------------------------------------------------------------- structure of a parser-model node *)
Definition is_pred_kind (k : kind) : bool := match k with KAnd | KNot | KEmpty => true | _ => false end.

(* leaves of a rule body: matches, syntactic predicates (their result is always None) and references to
   other rules (root nodes carrying a class) *)
Definition leafb (nid : nat) : bool :=
  match get_node g nid with
  | None => false
  | Some nd => is_match_kind (n_kind nd) || is_pred_kind (n_kind nd) || (n_root nd && is_rule nid)
  end.

Definition sep_okb (nd : node) : bool :=
  match n_sep nd with
  | None => true
  | Some s => match get_node g s with Some sn => is_match_kind (n_kind sn) | None => false end
  end.

Fixpoint nodupb (l : list nat) : bool :=
  match l with
  | [] => true
  | x :: r => negb (existsb (Nat.eqb x) r) && nodupb r
  end.

(* the body that goes with a member of an unordered group *)
Fixpoint bod_of (kids : list nat) (l : list Mult.body) (e : nat) : Mult.body :=
  match kids, l with
  | k :: kids', x :: l' => if Nat.eqb e k then x else bod_of kids' l' e
  | _, _ => BTok
  end.

Definition kind_eqb (k1 k2 : kind) : bool :=
  match k1, k2 with
  | KSeq, KSeq | KChoice, KChoice | KOpt, KOpt | KStar, KStar | KPlus, KPlus | KUnord, KUnord => true
  | _, _ => false
  end.

Definition asgb (nid : nat) (nd : node) (a : nat) (op : asgop) : bool :=
  n_root nd && negb (n_suppress nd) &&
  match info nid with
  | Build.IAsgn name o =>
    Nat.eqb (attr_id name) a &&
    match asg_op o (n_kind nd) with
    | Some op' => match op, op' with
                  | OpPlain, OpPlain | OpBool, OpBool | OpStar, OpStar | OpPlus, OpPlus => true
                  | _, _ => false
                  end
    | None => false
    end
  | _ => false
  end &&
  match n_kids nd with [rhs] => leafb rhs | _ => false end && sep_okb nd.

(* [top = true]: the root node of the rule itself (creates the rule's NonTerminal); otherwise an inner,
   non-root expression *)
Fixpoint den (top : bool) (b : Mult.body) (nid : nat) {struct b} : bool :=
  match get_node g nid with
  | None => false
  | Some nd =>
    let flags := negb (n_suppress nd) && (if top then n_root nd && is_rule nid else negb (n_root nd)) in
    let each := fix each (l : list Mult.body) (kids : list nat) : bool :=
                  match l, kids with
                  | [], [] => true
                  | x :: l', k :: kids' => den false x k && each l' kids'
                  | _, _ => false
                  end in
    match b with
    | BTok => negb top && leafb nid
    | BAsg a op => negb top && asgb nid nd a op
    | BSeq l => flags && kind_eqb (n_kind nd) KSeq && each l (n_kids nd)
    | BAlt l => flags && kind_eqb (n_kind nd) KChoice && each l (n_kids nd)
    | BOpt x => flags && kind_eqb (n_kind nd) KOpt && match n_kids nd with [e] => den false x e | _ => false end
    | BStar x => flags && kind_eqb (n_kind nd) KStar && sep_okb nd && match n_kids nd with [e] => den false x e | _ => false end
    | BPlus x => flags && kind_eqb (n_kind nd) KPlus && sep_okb nd && match n_kids nd with [e] => den false x e | _ => false end
    | BUnord l => flags && kind_eqb (n_kind nd) KUnord && sep_okb nd && nodupb (n_kids nd) && each l (n_kids nd)
    end
  end.

End Link.
