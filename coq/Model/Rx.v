(* Rx: a backtracking regular-expression semantics as a LIST OF SUCCESSES IN PRIORITY ORDER.

   `ends E r (pre, rest)` returns every way `r` can match at the current position, in exactly
   the order in which a backtracking engine (Python's sre) would try them; a match is the head
   of the list.  A state is (reversed prefix, remaining input): the prefix is needed for
   look-behind, \b and ^.

   Interface for other models:
     rx                       the AST (never written by hand: tools/translate/regex_tr.py
                              produces it from the pattern text through Python's re._parser)
     rxenv                    flags (MULTILINE / IGNORECASE / DOTALL) + classification of
                              non-ASCII code points (a parameter: bit 0 = \d, bit 1 = \w, bit 2 = \s)
     ends  : rxenv -> rx -> rstate -> list rstate
     rx_match : rxenv -> rx -> str (prefix, reversed) -> str (rest) -> option nat
                              length of the match `re.compile(p, flags).match(text, pos)` finds
     rx_first : the end state of that match

   Executable model only; lemmas are in Proofs/RxProofs.v.  The engine is validated against
   Python's `re` by tools/props/c04.py (exhaustive small strings + random). *)
From TxV Require Import Core.Base.

Inductive ccat := CDigit | CWord | CSpace.

Inductive citem :=
| IChar (c : N)
| IRange (lo hi : N)
| ICat (neg : bool) (k : ccat).

Inductive rx :=
| REps
| RChr (c : N)                                   (* a literal character *)
| RSet (neg : bool) (items : list citem)         (* [...] / [^...] / \d \w \s outside a set *)
| RAny                                           (* . *)
| RSeq (a b : rx)
| RAlt (a b : rx)                                (* ordered alternation *)
| RRep (greedy : bool) (lo : nat) (hi : option nat) (r : rx)   (* * + ? {m,n} and lazy forms *)
| RGroup (n : nat) (r : rx)                      (* capturing group n (captures are not tracked) *)
| RLookAhead (neg : bool) (r : rx)               (* (?=r) (?!r) *)
| RLookBehind (neg : bool) (w : nat) (r : rx)    (* (?<=r) (?<!r), r of fixed width w *)
| RWordB (neg : bool)                            (* \b \B *)
| RBol                                           (* ^ *)
| REol.                                          (* $ *)

Record rxenv := mkenv {
  e_multiline : bool;
  e_ignorecase : bool;      (* exact for ASCII letters only *)
  e_dotall : bool;
  e_ucls : N -> N           (* code points >= 128: bit 0 digit, bit 1 word, bit 2 space *)
}.

Notation rstate := (list N * list N)%type (only parsing).

(* ---- characters *)
Definition in_range (lo hi c : N) : bool := (N.leb lo c && N.leb c hi)%bool.

Definition is_digit (E : rxenv) (c : N) : bool :=
  if N.ltb c 128 then in_range 48 57 c else N.testbit (e_ucls E c) 0.

Definition is_word (E : rxenv) (c : N) : bool :=
  if N.ltb c 128
  then (in_range 48 57 c || in_range 65 90 c || in_range 97 122 c || N.eqb c 95)%bool
  else N.testbit (e_ucls E c) 1.

(* str patterns: [ \t\n\r\f\v] and the separators \x1c-\x1f *)
Definition is_space (E : rxenv) (c : N) : bool :=
  if N.ltb c 128
  then (in_range 9 13 c || in_range 28 32 c)%bool
  else N.testbit (e_ucls E c) 2.

Definition lower_ascii (c : N) : N := if in_range 65 90 c then (c + 32)%N else c.
Definition upper_ascii (c : N) : N := if in_range 97 122 c then (c - 32)%N else c.

Definition chr_eq (E : rxenv) (c l : N) : bool :=
  (N.eqb c l || (e_ignorecase E && N.eqb (lower_ascii c) (lower_ascii l)))%bool.

Definition cat_match (E : rxenv) (k : ccat) (c : N) : bool :=
  match k with CDigit => is_digit E c | CWord => is_word E c | CSpace => is_space E c end.

Definition item_match (E : rxenv) (c : N) (it : citem) : bool :=
  match it with
  | IChar l => N.eqb c l
  | IRange lo hi => in_range lo hi c
  | ICat neg k => xorb neg (cat_match E k c)
  end.

Definition set_mem (E : rxenv) (c : N) (items : list citem) : bool :=
  (existsb (item_match E c) items
   || (e_ignorecase E && (existsb (item_match E (lower_ascii c)) items
                          || existsb (item_match E (upper_ascii c)) items)))%bool.

(* ---- helpers on states *)
Definition step1 (ok : N -> bool) (st : rstate) : list rstate :=
  match snd st with
  | c :: rest => if ok c then [(c :: fst st, rest)] else []
  | [] => []
  end.

Definition pred_opt (o : option nat) : option nat :=
  match o with Some n => Some (Nat.pred n) | None => None end.

Definition is_zero_opt (o : option nat) : bool :=
  match o with Some O => true | _ => false end.

Definition nonempty {A} (l : list A) : bool := match l with [] => false | _ => true end.

(* `lo` mandatory iterations, then optional ones up to `hi` (None = unbounded).  An optional
   iteration must consume input (Python's guard against empty loops); the translator refuses
   unbounded repetitions of nullable bodies, for bounded ones the guard only removes
   duplicate ends.  fuel = S (lo + |rest|) is never exhausted (RxProofs.rep_loop_fuel). *)
Fixpoint rep_loop (step : rstate -> list rstate) (g : bool) (lo : nat) (hi : option nat)
         (fuel : nat) (st : rstate) : list rstate :=
  match fuel with
  | O => []
  | S f =>
    match lo with
    | S lo' => flat_map (rep_loop step g lo' (pred_opt hi) f) (step st)
    | O =>
      if is_zero_opt hi then [st] else
      let more := flat_map (fun st' =>
                    if Nat.ltb (length (snd st')) (length (snd st))
                    then rep_loop step g O (pred_opt hi) f st' else []) (step st) in
      if g then more ++ [st] else st :: more
    end
  end.

(* go back w characters *)
Fixpoint back (w : nat) (st : rstate) : option rstate :=
  match w with
  | O => Some st
  | S w' => match fst st with
            | c :: pre => back w' (pre, c :: snd st)
            | [] => None
            end
  end.

Definition word_boundary (E : rxenv) (st : rstate) : bool :=
  xorb (match fst st with c :: _ => is_word E c | [] => false end)
       (match snd st with c :: _ => is_word E c | [] => false end).

Definition at_bol (E : rxenv) (st : rstate) : bool :=
  match fst st with
  | [] => true
  | c :: _ => (e_multiline E && N.eqb c 10)%bool
  end.

Definition at_eol (E : rxenv) (st : rstate) : bool :=
  match snd st with
  | [] => true
  | c :: rest => (N.eqb c 10 && (e_multiline E || match rest with [] => true | _ => false end))%bool
  end.

Fixpoint ends (E : rxenv) (r : rx) (st : rstate) : list rstate :=
  match r with
  | REps => [st]
  | RChr l => step1 (fun c => chr_eq E c l) st
  | RSet neg items => step1 (fun c => xorb neg (set_mem E c items)) st
  | RAny => step1 (fun c => (e_dotall E || negb (N.eqb c 10))%bool) st
  | RSeq a b => flat_map (ends E b) (ends E a st)
  | RAlt a b => ends E a st ++ ends E b st
  | RRep g lo hi r' => rep_loop (ends E r') g lo hi (S (lo + length (snd st))) st
  | RGroup _ r' => ends E r' st
  | RLookAhead neg r' => if xorb neg (nonempty (ends E r' st)) then [st] else []
  | RLookBehind neg w r' =>
      match back w st with
      | None => if neg then [st] else []
      | Some st0 =>
          if xorb neg (existsb (fun st' => Nat.eqb (length (snd st')) (length (snd st))) (ends E r' st0))
          then [st] else []
      end
  | RWordB neg => if xorb neg (word_boundary E st) then [st] else []
  | RBol => if at_bol E st then [st] else []
  | REol => if at_eol E st then [st] else []
  end.

Definition rx_first (E : rxenv) (r : rx) (st : rstate) : option rstate := hd_error (ends E r st).

(* length of the match at the position after `pre` (reversed), None = no match *)
Definition rx_match (E : rxenv) (r : rx) (pre rest : list N) : option nat :=
  match ends E r (pre, rest) with
  | [] => None
  | st' :: _ => Some (length rest - length (snd st'))
  end.

(* the environment textX/Arpeggio compile their terminals with: re.MULTILINE only *)
Definition env_ml (u : N -> N) : rxenv := mkenv true false false u.
Definition ascii_only : N -> N := fun _ => 0%N.

(* a finite classification table (built by the harness from Python for the code points in a case) *)
Fixpoint ucls_of_table (t : list (N * N)) (c : N) : N :=
  match t with
  | [] => 0%N
  | (k, v) :: t' => if N.eqb k c then v else ucls_of_table t' c
  end.

(* ---- literal patterns, in the shape the translator emits them *)
(* `abc` followed by r:  RSeq a (RSeq b (RSeq c r))   (e.g. the keyword pattern `abc\b` with r = RWordB false) *)
Fixpoint rx_lit_then (l : list N) (r : rx) : rx :=
  match l with
  | [] => r
  | c :: l' => RSeq (RChr c) (rx_lit_then l' r)
  end.

(* `abc` alone:  RSeq a (RSeq b c) *)
Fixpoint rx_lit (l : list N) : rx :=
  match l with
  | [] => REps
  | [c] => RChr c
  | c :: l' => RSeq (RChr c) (rx_lit l')
  end.

Definition rx_kw (l : list N) : rx := rx_lit_then l (RWordB false).

(* the input starts with the literal (case-blind for ASCII letters under IGNORECASE) *)
Fixpoint lit_pre (E : rxenv) (l s : list N) : bool :=
  match l, s with
  | [], _ => true
  | x :: l', c :: s' => (chr_eq E c x && lit_pre E l' s')%bool
  | _ :: _, [] => false
  end.

Definition next_is_word (E : rxenv) (s : list N) : bool :=
  match s with c :: _ => is_word E c | [] => false end.
