(* Canonical printing of the Imports model's results (mirrored by tools/props/c25.py). *)
From TxV Require Import Core.Base Core.Show Model.Imports.
Open Scope string_scope.

Definition show_cls (c : cls) : string := show_str (fqn c) ++ "#" ++ show_nat (c_id c).
Definition show_ocls (o : option cls) : string := match o with Some c => show_cls c | None => "None" end.
Definition show_names (l : list (list N)) : string := sjoin "," (map show_str l).

Definition show_error (e : error) : string :=
  match e with
  | EFileNotFound ns => "filenotfound:" ++ show_str ns
  | EUnexisting ns names => "unexisting:" ++ show_str ns ++ ":" ++ show_names names
  | EUnknownClass ns names => "unknowncls:" ++ show_str ns ++ ":" ++ show_names names
  | EFuel => "FUEL"
  end.

Definition show_space (p : list N * list (list N * cls)) : string :=
  show_str (fst p) ++ "{" ++ sjoin "," (map (fun e => show_str (fst e) ++ "=" ++ show_cls (snd e)) (snd p)) ++ "}".

Definition show_link (l : link) : string :=
  show_str (l_ns l) ++ "/" ++ show_str (l_rule l) ++ "/" ++ (if l_cref l then "c" else "r") ++ "/"
  ++ show_str (l_name l) ++ ">" ++ show_ocls (l_target l).

Definition is_base_ns (p : list N * list (list N * cls)) : bool := str_eqb (fst p) BASE.

Definition show_state (fs : list (list N * gfile)) (s : st) (main : list N) (queries : list (list N)) : string :=
  "E:" ++ match serr s with Some e => show_error e | None => "ok" end
  ++ "|L:" ++ show_names (loads s)
  ++ "|C:" ++ show_nat (created s)
  ++ "|S:" ++ sjoin ";" (map show_space (filter (fun p => negb (is_base_ns p)) (spaces s)))
  ++ "|I:" ++ sjoin ";" (map (fun p => show_str (fst p) ++ "[" ++ show_names (snd p) ++ "]") (imported s))
  ++ "|K:" ++ sjoin ";" (map show_link (links s))
  ++ "|B:" ++ sjoin ";" (map (fun p => show_str (fst p) ++ ">" ++ show_str (snd p)) (backs s))
  ++ "|F:" ++ show_bool (safe fs s)
  ++ "|Q:" ++ sjoin ";" (map (fun q => show_str q ++ ">" ++ show_ocls (lookup s main q)) queries).

Definition run_case (langs : list (list N * list (list N))) (fs : list (list N * gfile)) (main : list N) (queries : list (list N)) : string :=
  show_state fs (load_main_with langs fs main) main queries.
