(* C02 — definitions for the projection of the full object builder (Model/Build.v, pnode) on one attribute.
   Build-side names are primary in this file; Model/Mult.v is used qualified. *)
From TxV Require Import Core.Base Model.PegSyntax Model.Peg Model.Build.
From TxV Require Model.MultBase Gen.SrcMult Model.Mult Model.MultPeg.

Section Defs.
Variable g : grammar.
Variable mm : list ninfo.
Variable input : list N.
Variable grp : nat -> nat -> option (nat * nat).
Variable auto use_grp : bool.
Notation pn := (pnode g mm input grp auto use_grp).

(* Side condition on parse trees: Build.asg_placed (assignment nodes occur only as direct children of common-rule nodes),
   the same condition C06 uses.  A tree with [asg_placed mm false] has a value that does not depend on (and does not
   touch) the object under construction. *)

(* the value process_node computes for such a tree *)
Definition vof (t : tree) : value :=
  match pn t None with BOk (v, _) => v | BErr _ => VNone end.

(* a non-containment reference is kept as a pending reference value at the place of the match *)
Definition is_link (ma : attr) : bool := (a_ref ma && negb (a_cont ma))%bool.
Definition wrap (ma : attr) (k : tree) (v : value) : value :=
  if is_link ma then VRef v (tpos k) (a_cls ma) else v.

(* the values one child of the rule's NonTerminal contributes to attribute ma: `=` the converted first child,
   `?=` True, `*=`/`+=` the converted non-separator children, in order *)
Definition kid_vals (ma : attr) (k : tree) : list value :=
  match k with
  | T _ _ _ _ => []
  | NT nid ks =>
    match info mm nid with
    | IAsgn a op =>
      if str_eqb (a_name ma) a then
        match op with
        | OpPlain => match ks with k0 :: _ => [wrap ma k0 (vof k0)] | [] => [] end
        | OpOptional => [VBool true]
        | OpList => map (fun t => wrap ma t (vof t)) (filter (fun t => negb (is_sep_of g nid t)) ks)
        | OpOther => []
        end
      else []
    | _ => []
    end
  end.
Definition tvals (ma : attr) (kids : list tree) : list value := flat_map (kid_vals ma) kids.

Definition is_many (m : mult) : bool := match m with MStar | MPlus => true | _ => false end.

(* every `__asgn_*` node of the table has a PEG class that fits its operator *)
Definition asg_table_okb : bool :=
  forallb (fun nid => match info mm nid with
                      | IAsgn _ o => match get_node g nid with
                                     | Some nd => match MultPeg.asg_op o (n_kind nd) with Some _ => true | None => false end
                                     | None => false
                                     end
                      | _ => true
                      end) (seq 0 (length mm)).

Variable attr_id : list N -> nat.

(* the attribute numbering is injective on the class' attributes, the names are distinct, and the dumped
   multiplicities are the inferred ones *)
Fixpoint names_distinct (l : list attr) : bool :=
  match l with
  | [] => true
  | x :: r => negb (existsb (fun y => str_eqb (a_name x) (a_name y) || Nat.eqb (attr_id (a_name x)) (attr_id (a_name y))) r)
              && names_distinct r
  end.
Definition mult_agreesb (b : Mult.body) (attrs : list attr) : bool :=
  forallb (fun ma => Bool.eqb (is_many (a_mult ma)) (Mult.is_list (Mult.infer b (attr_id (a_name ma))))) attrs.

(* what the finished object holds for an attribute, given the values matched for it *)
Definition expected_val (ma : attr) (vs : list value) : value :=
  if is_many (a_mult ma) then VList vs else match vs with [] => init_attr auto ma | v :: _ => v end.

End Defs.
