(* ErrLocLoad — the error-location model (Model/ErrLoc.v) composed with the interpreter model
   (Model/Peg.v: the syntax error position is the interpreter's furthest-failure position) and with the
   object builder (Model/Build.v: an object carries the span of the parse-tree node it is built from).
   In Model/ErrLoc.v the offsets are inputs; here they are computed by those models.
   Executable definitions only. *)
From TxV Require Import Core.Base Model.PegSyntax Model.Peg Model.Build Model.ErrLoc.

(* parse the text of model m with the model parser; a failed parse raises the located syntax error
   (TextXModelParser._parse: NoMatch -> TextXSyntaxError) *)
Definition load_syntax_error (d : locdesc) (g : grammar) (c : config) (orc : nat -> nat -> option nat)
           (memo : bool) (fuel : nat) (fs : list src) (m : nat) : option errrec :=
  match Peg.run g c orc memo fuel (s_text (file_at fs m)) with
  | SyntaxErr p => Some (syntax_error d fs m p)
  | _ => None
  end.

(* build the object of parse-tree node t of model m (process_node), then run its object processor
   (call_obj_processors -> metamodel.process(obj, name, **get_location(obj))).  None: the node does not
   yield an object. *)
Definition process_built_node (fills keys : list field) (g : grammar) (mm : list ninfo)
           (grp : nat -> nat -> option (nat * nat)) (auto use_grp : bool)
           (fs : list src) (m : nat) (t : tree) (top : option cur)
           (wrapped : bool) (r : raised) : option ErrLoc.outcome :=
  match pnode g mm (s_text (file_at fs m)) grp auto use_grp t top with
  | BOk (VObj _ p e _, _) => Some (obj_dispatch fills keys fs m p e wrapped r)
  | _ => None
  end.
