(* ErrLocLoad — the error-location model (Model/ErrLoc.v) composed with the interpreter model
   (Model/Peg.v: the syntax error position is the interpreter's furthest-failure position) and with the
   object builder (Model/Build.v: an object carries the span of the parse-tree node it is built from).
   In Model/ErrLoc.v the offsets are inputs; here they are computed by those models.
   Executable definitions only. *)
From TxV Require Import Core.Base Model.PegSyntax Model.Peg Model.Build Model.ErrLoc.

(* parse the text of model m with the model parser; a failed parse raises the located syntax error
   (TextXModelParser._parse: NoMatch -> TextXSyntaxError) *)
Definition load_syntax_error (d : locdesc) (g : grammar) (c : config) (orc : nat -> nat -> option nat)
           (memo : bool) (fuel : nat) (fs : list src) (m : nat) : option errrec :=
  match Peg.run g c orc memo fuel (s_text (file_at fs m)) with
  | SyntaxErr p => Some (syntax_error d fs m p)
  | _ => None
  end.

(* build the object of parse-tree node t of model m (process_node), then run its object processor
   (call_obj_processors -> metamodel.process(obj, name, **get_location(obj))).  None: the node does not
   yield an object. *)
Definition process_built_node (fills keys : list field) (g : grammar) (mm : list ninfo)
           (grp : nat -> nat -> option (nat * nat)) (auto use_grp : bool)
           (fs : list src) (m : nat) (t : tree) (top : option cur)
           (wrapped : bool) (r : raised) : option ErrLoc.outcome :=
  match pnode g mm (s_text (file_at fs m)) grp auto use_grp t top with
  | BOk (VObj _ p e _, _) => Some (obj_dispatch fills keys fs m p e wrapped r)
  | _ => None
  end.

(* every object of a built model value with its class and span, in pre-order *)
Fixpoint objs_of (v : value) : list (list N * (nat * nat)) :=
  match v with
  | VObj cls p e attrs =>
      (cls, (p, e)) :: (fix go (l : list (list N * value)) : list (list N * (nat * nat)) :=
                          match l with [] => [] | (_, x) :: r => objs_of x ++ go r end) attrs
  | VList l => (fix go (l : list value) : list (list N * (nat * nat)) :=
                  match l with [] => [] | x :: r => objs_of x ++ go r end) l
  | VJoin _ l => (fix go (l : list value) : list (list N * (nat * nat)) :=
                    match l with [] => [] | x :: r => objs_of x ++ go r end) l
  | VConv _ x => objs_of x
  | _ => []
  end.

Fixpoint find_obj (cls : list N) (pos : nat) (l : list (list N * (nat * nat))) : option (nat * nat) :=
  match l with
  | [] => None
  | (c, (p, e)) :: r => if str_eqb c cls && Nat.eqb p pos then Some (p, e) else find_obj cls pos r
  end.

(* the whole pipeline for one model file: parse its text (Peg.run), build the object graph (Build.build),
   take the object of class cls starting at pos, run its object processor.  Used by the correspondence:
   the END of the span comes from the parser and builder models, not from the test generator. *)
Definition process_loaded_object (fills keys : list field) (g : grammar) (c : config)
           (orc : nat -> nat -> option nat) (fuel : nat) (mm : list ninfo)
           (grp : nat -> nat -> option (nat * nat)) (auto use_grp : bool)
           (fs : list src) (m : nat) (cls : list N) (pos : nat)
           (wrapped : bool) (r : raised) : option ErrLoc.outcome :=
  match Peg.run g c orc false fuel (s_text (file_at fs m)) with
  | Parsed res =>
      match build g mm (s_text (file_at fs m)) grp auto use_grp res with
      | BOk v => match find_obj cls pos (objs_of v) with
                 | Some (p, e) => Some (obj_dispatch fills keys fs m p e wrapped r)
                 | None => None
                 end
      | BErr _ => None
      end
  | _ => None
  end.

(* every node of a parse result (the node itself and all its descendants) *)
Fixpoint subtrees (t : tree) : list tree :=
  t :: match t with
       | NT _ kids => flat_map subtrees kids
       | T _ _ _ _ => []
       end.
Fixpoint res_subtrees (r : res) : list tree :=
  match r with
  | RNone => []
  | RTree t => subtrees t
  | RList l => flat_map res_subtrees l
  end.
