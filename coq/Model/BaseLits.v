(* The writing side of C04: how a value is written as text (independently of the parser).
   Definitions only. *)
From Coq Require Import Decimal.
From TxV Require Import Core.Base Model.Rx.

(* ---- strings: between quote characters q, only q escaped by a backslash *)
Definition esc (q : N) (s : list N) : list N :=
  flat_map (fun c => if N.eqb c q then [92; q]%N else [c]) s.

Definition quote (q : N) (s : list N) : list N := q :: esc q s ++ [q].

Fixpoint ends_with_bs (s : list N) : bool :=
  match s with
  | [] => false
  | [c] => N.eqb c 92
  | _ :: s' => ends_with_bs s'
  end.

(* ---- ints: Coq's own decimal printer (Z.to_int), as characters *)
Fixpoint uint_chars (d : uint) : list N :=
  match d with
  | Nil => []
  | D0 d => 48 :: uint_chars d | D1 d => 49 :: uint_chars d | D2 d => 50 :: uint_chars d
  | D3 d => 51 :: uint_chars d | D4 d => 52 :: uint_chars d | D5 d => 53 :: uint_chars d
  | D6 d => 54 :: uint_chars d | D7 d => 55 :: uint_chars d | D8 d => 56 :: uint_chars d
  | D9 d => 57 :: uint_chars d
  end%N.

(* str(z) in Python: "-"? digits, no leading zeros *)
Definition dec_text (z : Z) : list N :=
  match Z.to_int z with
  | Pos d => uint_chars d
  | Neg d => 45%N :: uint_chars d
  end.

Definition is_dig (c : N) : bool := in_range 48 57 c.
Definition all_digits (ds : list N) : bool := forallb is_dig ds.

(* ---- float literals: sign? (ds1 '.' ds2 | '.' ds2 | ds1) exponent?   (ASCII digits) *)
Definition sign_chars (so : option bool) : list N :=
  match so with None => [] | Some true => [43]%N | Some false => [45]%N end.

Inductive mantissa :=
| MDot (ds1 ds2 : list N)     (* ds1 non-empty, "12." and "12.5" *)
| MLead (ds2 : list N)         (* ".5", ds2 non-empty *)
| MInt (ds1 : list N).         (* "12" (a float only with an exponent) *)

Definition mant_chars (m : mantissa) : list N :=
  match m with
  | MDot ds1 ds2 => ds1 ++ 46%N :: ds2
  | MLead ds2 => 46%N :: ds2
  | MInt ds1 => ds1
  end.

Definition mant_ok (m : mantissa) : bool :=
  match m with
  | MDot ds1 ds2 => (negb (Nat.eqb (length ds1) 0) && all_digits ds1 && all_digits ds2)%bool
  | MLead ds2 => (negb (Nat.eqb (length ds2) 0) && all_digits ds2)%bool
  | MInt ds1 => (negb (Nat.eqb (length ds1) 0) && all_digits ds1)%bool
  end.

(* exponent: upper-case E?, sign, digits *)
Definition exp_chars (eo : option (bool * option bool * list N)) : list N :=
  match eo with
  | None => []
  | Some (up, so, ds) => (if up then 69%N else 101%N) :: sign_chars so ++ ds
  end.

Definition exp_ok (eo : option (bool * option bool * list N)) : bool :=
  match eo with
  | None => true
  | Some (_, _, ds) => (negb (Nat.eqb (length ds) 0) && all_digits ds)%bool
  end.

Definition float_chars (so : option bool) (m : mantissa) (eo : option (bool * option bool * list N)) : list N :=
  sign_chars so ++ mant_chars m ++ exp_chars eo.

(* has a '.' or an exponent *)
Definition is_float_form (m : mantissa) (eo : option (bool * option bool * list N)) : bool :=
  match m, eo with MInt _, None => false | _, _ => true end.

(* what may follow a number: nothing, or a character that is not a word character, digit or '.' *)
Definition delimited (E : rxenv) (rest : list N) : Prop :=
  match rest with
  | [] => True
  | c :: _ => is_word E c = false /\ is_digit E c = false /\ c <> 46%N
  end.

(* what may follow an INT: nothing or a non-digit *)
Definition not_digit_next (rest : list N) : Prop :=
  match rest with [] => True | c :: _ => is_dig c = false end.

(* ---- BOOL: the six spellings and the value each stands for *)
Definition bool_spellings : list (list N * bool) :=
  [([84; 114; 117; 101], true); ([116; 114; 117; 101], true);
   ([70; 97; 108; 115; 101], false); ([102; 97; 108; 115; 101], false);
   ([48], false); ([49], true)]%N.

(* what may follow a BOOL: nothing or a non-word character *)
Definition not_word_next (E : rxenv) (rest : list N) : Prop :=
  match rest with [] => True | c :: _ => is_word E c = false end.

(* ---- sequences of written values: each item is followed by whitespace; between two items the
   whitespace must be non-empty (after the last item it may be empty) *)
Fixpoint seps_ok {A} (items : list (A * list N)) : Prop :=
  match items with
  | [] => True
  | (_, w) :: tl => match tl with [] => True | _ => w <> [] /\ seps_ok tl end
  end.

Definition items_text {A} (text : A -> list N) (items : list (A * list N)) : list N :=
  flat_map (fun it => text (fst it) ++ snd it) items.

(* a written number: an integer (decimal) or a float literal with '.' or exponent *)
Inductive numlit :=
| NLInt (z : Z)
| NLFloat (so : option bool) (m : mantissa) (eo : option (bool * option bool * list N)).

Definition numlit_ok (n : numlit) : bool :=
  match n with
  | NLInt _ => true
  | NLFloat _ m eo => (mant_ok m && exp_ok eo && is_float_form m eo)%bool
  end.

Definition numlit_is_float (n : numlit) : bool := match n with NLInt _ => false | NLFloat _ _ _ => true end.

Definition numlit_text (n : numlit) : list N :=
  match n with NLInt z => dec_text z | NLFloat so m eo => float_chars so m eo end.
