(* Model of multi-file model loading (C17/C18): textx/scoping/__init__.py
   (ModelRepository, GlobalModelRepository.load_model / load_models_using_filepattern /
   update_model_in_repo_based_on_filename / pre_ref_resolution_callback,
   remove_models_from_repositories), textx/scoping/providers.py (ImportURI.load_models,
   _load_referenced_models, __call__), textx/model.py (parse_tree_to_objgraph: callback,
   ModelLoader loop, main-model resolution, object processors, the two exception
   handlers, _remove_all_affected_models_in_construction) and textx/metamodel.py
   (internal_model_from_file: global cache, model processors on freshly loaded models).

   Executable model only; proofs are in Proofs/RepoProofs.v.  The data-like facts
   (lookup order, which handlers clean up, registration before imports) come from
   Gen/SrcRepo.v, regenerated from the source on every run. *)
From TxV Require Import Core.Base Model.RepoDefs Gen.SrcRepo.

(* A model file after glob / search-path expansion (oracle: the expansion of every import
   statement to file indices, in the order the loader sees them).  An empty expansion is
   "nothing found" (OSError).  fobj/fmp: an object / model processor raises on this content. *)
Record file := mkFile { fimports : list (list nat); felems : list N; frefs : list N;
                        fsyn : bool; fobj : bool; fmp : bool }.

(* a model object: identity = index in the heap (allocation order) *)
Record minfo := mkMinfo { mfile : nat; mop : nat; mcont : file }.

Inductive err := ESyntax (f : nat) | ENoFile | EUnres (f : nat) | EObj (f : nat) | EMp (f : nat)
               | EFuel | EMissing (f : nat).

(* metamodel configuration: global repository, RREL '+m:' provider attached to the
   references (imports are followed only when the file has a reference), builtin models *)
Record cfg := mkCfg { cglobal : bool; clazy : bool; cbuiltins : list nat;
                      cunique : bool (* PlainName inside: a name defined twice in the model it is found in is refused *) }.

(* ---------- insertion-ordered dictionaries (Python dict) *)
Fixpoint dget {A} (k : nat) (l : list (nat * A)) : option A :=
  match l with
  | [] => None
  | (k', v) :: t => if Nat.eqb k k' then Some v else dget k t
  end.
Definition dhas {A} (k : nat) (l : list (nat * A)) : bool :=
  match dget k l with Some _ => true | None => false end.
Fixpoint dset {A} (k : nat) (v : A) (l : list (nat * A)) : list (nat * A) :=
  match l with
  | [] => [(k, v)]
  | (k', v') :: t => if Nat.eqb k k' then (k, v) :: t else (k', v') :: dset k v t
  end.
Fixpoint ddel {A} (k : nat) (l : list (nat * A)) : list (nat * A) :=
  match l with
  | [] => []
  | (k', v') :: t => if Nat.eqb k k' then t else (k', v') :: ddel k t
  end.
Definition mem (x : nat) (l : list nat) : bool := existsb (Nat.eqb x) l.

(* ModelRepository.remove_model: the loop keeps the LAST key whose value is the model *)
Fixpoint last_key_of (v : nat) (l : list (nat * nat)) : option nat :=
  match l with
  | [] => None
  | (k, v') :: t => match last_key_of v t with
                    | Some k' => Some k'
                    | None => if Nat.eqb v' v then Some k else None
                    end
  end.
Definition remove_model (v : nat) (l : list (nat * nat)) : list (nat * nat) :=
  match last_key_of v l with Some k => ddel k l | None => l end.
Definition remove_models (vs : list nat) (l : list (nat * nat)) : list (nat * nat) :=
  fold_left (fun acc v => remove_model v acc) vs l.

(* ---------- state *)
Record state := mkState {
  heap : list minfo;                               (* every model object ever created *)
  allm : list (nat * nat);                         (* all_models of the current load: file -> model *)
  locals : list (nat * list (nat * nat));          (* model -> its local_models dict *)
  constr : list nat;                               (* models having _tx_reference_resolver *)
  targets : list (nat * list (option (nat * nat))); (* model -> resolved references (model, element) *)
  reads : list nat;                                (* files opened during the current operation *)
  curop : nat }.

Definition with_heap (s : state) h := mkState h (allm s) (locals s) (constr s) (targets s) (reads s) (curop s).
Definition with_allm (s : state) a := mkState (heap s) a (locals s) (constr s) (targets s) (reads s) (curop s).
Definition with_locals (s : state) l := mkState (heap s) (allm s) l (constr s) (targets s) (reads s) (curop s).
Definition with_constr (s : state) c := mkState (heap s) (allm s) (locals s) c (targets s) (reads s) (curop s).
Definition with_targets (s : state) t := mkState (heap s) (allm s) (locals s) (constr s) t (reads s) (curop s).
Definition with_reads (s : state) r := mkState (heap s) (allm s) (locals s) (constr s) (targets s) r (curop s).

Definition local_of (m : nat) (s : state) : list (nat * nat) :=
  match dget m (locals s) with Some l => l | None => [] end.
Definition set_local (m g v : nat) (s : state) : state :=
  with_locals s (dset m (dset g v (local_of m s)) (locals s)).
Definition set_all (g v : nat) (s : state) : state := with_allm s (dset g v (allm s)).

Definition alloc (g : nat) (fc : file) (s : state) : state :=
  with_constr (with_heap s (heap s ++ [mkMinfo g (curop s) fc])) (length (heap s) :: constr s).

(* get_included_models *)
Definition included (m : nat) (s : state) : list nat :=
  let vs := map snd (allm s) in if mem m vs then vs else vs ++ [m].

(* remove_models_from_repositories(models, rem): every model's repository shares the one
   all_models dict (and it is the metamodel's with a global repository; removing twice is
   removing once), plus its own local_models *)
Definition remove_from_repos (models rem : list nat) (s : state) : state :=
  fold_left (fun s x => with_locals (with_allm s (remove_models rem (allm s)))
                                    (dset x (remove_models rem (local_of x s)) (locals s)))
            models s.

(* _remove_all_affected_models_in_construction(m): the outer handler of parse_tree_to_objgraph *)
Definition handler (m : nat) (s : state) : state :=
  if cleanup_construction_failure then
    let aff := included m s in
    remove_from_repos aff (filter (fun x => mem x (constr s)) aff) s
  else s.

(* update_model_in_repo_based_on_filename *)
Definition update_in_repo (m mf : nat) (s : state) : state :=
  if dhas mf (allm s) then s else set_all mf m s.

Notation loader := (nat -> state -> (err + nat) * state) (only parsing).

(* GlobalModelRepository.load_model, called for model m (add_to_local_models = True) *)
Definition load_model (ld : loader) (m g : nat) (s : state) : option err * state :=
  if dhas g (local_of m s) then (None, s)
  else match dget g (allm s) with
       | Some m' => (None, set_local m g m' s)
       | None => match ld g s with
                 | (inl e, s') => (Some e, s')
                 | (inr m', s') => (None, set_local m g m' (set_all g m' s'))
                 end
       end.

Fixpoint load_files (ld : loader) (m : nat) (gs : list nat) (s : state) : option err * state :=
  match gs with
  | [] => (None, s)
  | g :: gs' => match load_model ld m g s with
                | (Some e, s') => (Some e, s')
                | (None, s') => load_files ld m gs' s'
                end
  end.

(* ImportURI._load_referenced_models: one load_models_using_filepattern /
   load_model_using_search_path call per import statement *)
Fixpoint load_stmts (ld : loader) (m mf : nat) (stmts : list (list nat)) (s : state) : option err * state :=
  match stmts with
  | [] => (None, s)
  | gs :: rest =>
      let s1 := update_in_repo m mf s in
      match gs with
      | [] => (Some ENoFile, s1)
      | _ => match load_files ld m gs s1 with
             | (Some e, s2) => (Some e, s2)
             | (None, s2) => load_stmts ld m mf rest s2
             end
      end
  end.

Definition is_nil {A} (l : list A) : bool := match l with [] => true | _ => false end.

(* internal_model_from_file + get_model_from_str + parse_tree_to_objgraph up to the end of the
   ModelLoader loop, for one file that is not cached *)
Fixpoint load_file (fs : list file) (c : cfg) (fuel : nat) (main : bool) (g : nat) (s : state)
  : (err + nat) * state :=
  match fuel with
  | 0 => (inl EFuel, s)
  | S k =>
      match nth_error fs g with
      | None => (inl (EMissing g), s)
      | Some fc =>
          let s1 := with_reads s (reads s ++ [g]) in
          if fsyn fc then (inl (ESyntax g), s1) else
          let m := length (heap s1) in
          let s2 := alloc g fc s1 in
          let reg x := if (main && negb (cglobal c))%bool then x else set_all g m x in
          let s3 := if register_before_imports then reg s2 else s2 in
          let '(r, s4) := if (clazy c && is_nil (frefs fc))%bool then (None, s3)
                          else load_stmts (load_file fs c k false) m g (fimports fc) s3 in
          match r with
          | Some e => (inl e, handler m s4)
          | None =>
              let s5 := if register_before_imports then s4 else reg s4 in
              if main then (inr m, s5)
              else if fmp fc then (inl (EMp g), s5) else (inr m, s5)
          end
      end
  end.

(* ---------- reference resolution (ImportURI.__call__ over PlainName / FQN / RREL) *)
Fixpoint find_elem (n : N) (es : list N) : option nat :=
  match es with
  | [] => None
  | e :: t => if N.eqb e n then Some 0 else option_map S (find_elem n t)
  end.
Definition cont_of (m : nat) (s : state) : option file := option_map mcont (nth_error (heap s) m).
Definition file_of (m : nat) (s : state) : nat := match nth_error (heap s) m with Some i => mfile i | None => 0 end.
Definition lookup_in (s : state) (n : N) (m : nat) : option (nat * nat) :=
  match cont_of m s with
  | Some fc => option_map (fun i => (m, i)) (find_elem n (felems fc))
  | None => None
  end.
Definition scope_models (c : cfg) (s : state) (x : nat) (src : scope_src) : list nat :=
  match src with SOwn => [x] | SLocal => map snd (local_of x s) | SBuiltin => cbuiltins c end.
Fixpoint first_some {A B} (f : A -> option B) (l : list A) : option B :=
  match l with
  | [] => None
  | a :: t => match f a with Some b => Some b | None => first_some f t end
  end.
Definition search_list (c : cfg) (s : state) (x : nat) : list nat := flat_map (scope_models c s x) lookup_order.
Definition resolve_name (c : cfg) (s : state) (x : nat) (n : N) : option (nat * nat) :=
  first_some (lookup_in s n) (search_list c s x).

(* PlainName (multi_metamodel_support) collects every element of the searched model with that name and raises
   'name ... is not unique' when there are several; FQN and RREL take the first.  The search stops at the first model
   that has the name, so only that model's duplicates matter. *)
Fixpoint count_elem (n : N) (es : list N) : nat :=
  match es with [] => 0 | e :: t => (if N.eqb e n then 1 else 0) + count_elem n t end.
Definition dup_in (s : state) (n : N) (m : nat) : bool :=
  match cont_of m s with Some fc => Nat.ltb 1 (count_elem n (felems fc)) | None => false end.
Fixpoint resolve_refs (c : cfg) (s : state) (x : nat) (ns : list N) : option (list (option (nat * nat))) :=
  match ns with
  | [] => Some []
  | n :: t => match resolve_name c s x n with
              | None => None
              | Some tg => if (cunique c && dup_in s n (fst tg))%bool then None
                           else option_map (cons (Some tg)) (resolve_refs c s x t)
              end
  end.
Definition refs_of (m : nat) (s : state) : list N := match cont_of m s with Some fc => frefs fc | None => [] end.
Fixpoint resolve_all (c : cfg) (models : list nat) (s : state) : err + state :=
  match models with
  | [] => inr s
  | x :: t => match resolve_refs c s x (refs_of x s) with
              | None => inl (EUnres (file_of x s))
              | Some tg => resolve_all c t (with_targets s (dset x tg (targets s)))
              end
  end.
Definition flag_of (p : file -> bool) (m : nat) (s : state) : bool :=
  match cont_of m s with Some fc => p fc | None => false end.
Fixpoint first_obj_fail (models : list nat) (s : state) : option err :=
  match models with
  | [] => None
  | x :: t => if flag_of fobj x s then Some (EObj (file_of x s)) else first_obj_fail t s
  end.

(* ---------- one top-level load: metamodel.model_from_file *)
Definition begin_op (c : cfg) (s : state) : state :=
  with_reads (if cglobal c then s else with_allm s []) [].

Definition finish_main (c : cfg) (f m : nat) (cached : list nat) (s1 : state) : (err + nat) * state :=
  let models := filter (fun x => mem x (constr s1)) (included m s1) in
  let inner x := if cleanup_resolution_failure then remove_from_repos models models x else x in
  match resolve_all c models s1 with
  | inl e => (inl e, handler m (inner s1))
  | inr s2 =>
      (* _end_model_construction for every model of this load *)
      let s3 := with_constr s2 (filter (fun x => negb (mem x models)) (constr s2)) in
      match first_obj_fail models s3 with
      | Some e => (inl e, handler m (inner s3))
      | None =>
          let loaded := filter (fun x => negb (mem x cached)) (included m s3) in
          if flag_of fmp m s3
          then (inl (EMp f), if cleanup_model_processor_failure then remove_from_repos loaded loaded s3 else s3)
          else (inr m, s3)
      end
  end.

Definition load_main_raw (fs : list file) (c : cfg) (f : nat) (s0 : state) : (err + nat) * state :=
  let s := begin_op c s0 in
  match (if cglobal c then dget f (allm s) else None) with
  | Some m =>   (* cached: the processors run again only if the source says so (Gen/SrcRepo.v) *)
      if (model_processors_on_cached && flag_of fmp m s)%bool then (inl (EMp f), s) else (inr m, s)
  | None =>
      match load_file fs c (S (length fs)) true f s with
      | (inl e, s1) => (inl e, s1)
      | (inr m, s1) => finish_main c f m (map snd (allm s)) s1
      end
  end.

(* ---------- imports across languages.  load_models_using_filepattern / load_model_using_search_path pick the
   metamodel of an imported file with metamodel_for_file_or_default_metamodel (registered languages); that
   metamodel's internal_model_from_file first consults ITS OWN global repository - also for an import, which arrives
   with the importer's callback - and otherwise parses the file with its own grammar, providers and processors; the
   callback enters the new model into the IMPORTER's all_models.  Within one top-level load the other languages'
   repositories are only read, so they appear here as an external cache x : file -> cached model, consulted exactly
   where load_model calls the metamodel (wrapper around the recursive loader).  x = (fun _ => None) is the
   single-language loader (RepoMLProofs.load_file_x_none). *)
Definition with_ext (x : nat -> option nat) (ld : loader) : loader :=
  fun g s => match x g with Some m' => (inr m', s) | None => ld g s end.

Fixpoint load_file_x (x : nat -> option nat) (fs : list file) (c : cfg) (fuel : nat) (main : bool) (g : nat) (s : state)
  : (err + nat) * state :=
  match fuel with
  | 0 => (inl EFuel, s)
  | S k =>
      match nth_error fs g with
      | None => (inl (EMissing g), s)
      | Some fc =>
          let s1 := with_reads s (reads s ++ [g]) in
          if fsyn fc then (inl (ESyntax g), s1) else
          let m := length (heap s1) in
          let s2 := alloc g fc s1 in
          let reg y := if (main && negb (cglobal c))%bool then y else set_all g m y in
          let s3 := if register_before_imports then reg s2 else s2 in
          let '(r, s4) := if (clazy c && is_nil (frefs fc))%bool then (None, s3)
                          else load_stmts (with_ext x (load_file_x x fs c k false)) m g (fimports fc) s3 in
          match r with
          | Some e => (inl e, handler m s4)
          | None =>
              let s5 := if register_before_imports then s4 else reg s4 in
              if main then (inr m, s5)
              else if fmp fc then (inl (EMp g), s5) else (inr m, s5)
          end
      end
  end.

(* xvals: the models held by the other languages' global repositories (get_models_loaded_with does not count them
   as loaded by this call, so the cleanup after a model processor failure leaves them alone) *)
Definition load_main_x_raw (x : nat -> option nat) (xvals : list nat) (fs : list file) (c : cfg) (f : nat) (s0 : state) : (err + nat) * state :=
  let s := begin_op c s0 in
  match (if cglobal c then dget f (allm s) else None) with
  | Some m => if (model_processors_on_cached && flag_of fmp m s)%bool then (inl (EMp f), s) else (inr m, s)
  | None =>
      match load_file_x x fs c (S (length fs)) true f s with
      | (inl e, s1) => (inl e, s1)
      | (inr m, s1) => finish_main c f m (map snd (allm s) ++ xvals) s1
      end
  end.

(* ---------- a main model loaded from a string: metamodel.model_from_str without a file name.
   No file is read and nothing is looked up in the global repository; the metamodel's callback does not
   register the model; the model loading providers (GlobalRepo: the registered patterns, given here as the
   content's fimports) register it through update_model_in_repo_based_on_filename under the first free invented
   name 'anonymousN' (key |files| + N; the name is free when it is chosen and the model keeps it, so the later
   by-value search of that function finds it again); resolution, processors and cleanups as for a file. *)
Fixpoint first_free (k fuel : nat) (ks : list nat) : nat :=
  match fuel with
  | 0 => k
  | S f => if mem k ks then first_free (S k) f ks else k
  end.
Definition anon_key (fs : list file) (s : state) : nat :=
  first_free (length fs) (length (allm s)) (map fst (allm s)).

Definition load_str_raw (fs : list file) (c : cfg) (fc : file) (s0 : state) : (err + nat) * state :=
  let s := begin_op c s0 in
  let k := anon_key fs s in
  if fsyn fc then (inl (ESyntax k), s) else
  let m := length (heap s) in
  let s2 := alloc k fc s in
  let '(r, s4) := if (clazy c && is_nil (frefs fc))%bool then (None, s2)
                  else load_stmts (load_file fs c (S (length fs)) false) m k (fimports fc) s2 in
  match r with
  | Some e => (inl e, handler m s4)
  | None => finish_main c k m (map snd (allm s)) s4
  end.

(* Garbage collection at the end of a top-level load.  Model objects are heap indices, and Python frees
   what nothing refers to: after a FAILED load the models created by the attempt (indices >= the heap size at
   its start) are unreachable - that is C18_clean, proved on load_main_raw - so they are dropped from the heap
   and from the per-model tables; after a successful load nothing is dropped.  `locals` is a finite map; it is
   kept in the normal form "ascending model index, non-empty entries only". *)
Definition nonempty_entry (e : nat * list (nat * nat)) : bool := negb (is_nil (snd e)).
Definition norm_locals (n : nat) (s : state) : list (nat * list (nat * nat)) :=
  filter nonempty_entry (map (fun x => (x, local_of x s)) (seq 0 n)).
Definition tidy (n : nat) (s : state) : state :=
  mkState (firstn n (heap s)) (allm s) (norm_locals n s) (filter (fun x => Nat.ltb x n) (constr s))
          (filter (fun kv => Nat.ltb (fst kv) n) (targets s)) (reads s) (curop s).
Definition live_bound (s0 : state) (r : (err + nat) * state) : nat :=
  match fst r with inl _ => length (heap s0) | inr _ => length (heap (snd r)) end.
Definition load_main (fs : list file) (c : cfg) (f : nat) (s0 : state) : (err + nat) * state :=
  let r := load_main_raw fs c f s0 in (fst r, tidy (live_bound s0 r) (snd r)).

(* ---------- histories *)
Definition load_str (fs : list file) (c : cfg) (fc : file) (s0 : state) : (err + nat) * state :=
  let r := load_str_raw fs c fc s0 in (fst r, tidy (live_bound s0 r) (snd r)).

Definition load_main_x (x : nat -> option nat) (xvals : list nat) (fs : list file) (c : cfg) (f : nat) (s0 : state) : (err + nat) * state :=
  let r := load_main_x_raw x xvals fs c f s0 in (fst r, tidy (live_bound s0 r) (snd r)).

(* several registered languages, each metamodel with or without its own global repository: the state is the shared
   heap of model objects plus one all_models per language with a global repository *)
Record mlcfg := mkML { lglobal : list bool; lang_of : list nat }.
Definition lang (mc : mlcfg) (f : nat) : nat := nth f (lang_of mc) 0.
Definition lglob (mc : mlcfg) (L : nat) : bool := nth L (lglobal mc) false.
Definition repo_of (repos : list (nat * list (nat * nat))) (L : nat) : list (nat * nat) :=
  match dget L repos with Some a => a | None => [] end.
Definition ext_of (mc : mlcfg) (repos : list (nat * list (nat * nat))) (L g : nat) : option nat :=
  let Lg := lang mc g in
  if Nat.eqb Lg L then None else if lglob mc Lg then dget g (repo_of repos Lg) else None.
Definition ml_load (fs : list file) (mc : mlcfg) (f : nat) (ms : state * list (nat * list (nat * nat)))
  : (err + nat) * (state * list (nat * list (nat * nat))) :=
  let '(s, repos) := ms in
  let L := lang mc f in
  let c := mkCfg (lglob mc L) false [] false in
  let s0 := with_allm s (if lglob mc L then repo_of repos L else []) in
  let xvals := flat_map (fun Lr => if Nat.eqb (fst Lr) L then [] else map snd (snd Lr)) repos in
  let r := load_main_x (ext_of mc repos L) xvals fs c f s0 in
  (fst r, (snd r, if lglob mc L then dset L (allm (snd r)) repos else repos)).

Inductive op := OLoad (f : nat) | OWrite (f : nat) (fc : file) | OLoadStr (fc : file).
Fixpoint set_nth {A} (i : nat) (x : A) (l : list A) : list A :=
  match l, i with
  | [], _ => []
  | _ :: t, 0 => x :: t
  | a :: t, S j => a :: set_nth j x t
  end.

(* initial state: the builtin models are the first heap entries *)
Definition init_state (builtins : list file) : state :=
  mkState (map (fun fc => mkMinfo 0 0 fc) builtins) [] [] [] [] [] 0.
Definition init_cfg_u (uniq glob lazy : bool) (builtins : list file) : cfg := mkCfg glob lazy (seq 0 (length builtins)) uniq.
Definition init_cfg (glob lazy : bool) (builtins : list file) : cfg := init_cfg_u false glob lazy builtins.

(* histories over several languages (string loads are single-language operations and are skipped here) *)
Fixpoint ml_hist (mc : mlcfg) (fs : list file) (ms : state * list (nat * list (nat * nat))) (ops : list op)
  : state * list (nat * list (nat * nat)) :=
  match ops with
  | [] => ms
  | OWrite f fc :: t => ml_hist mc (set_nth f fc fs) ms t
  | OLoad f :: t => ml_hist mc fs (snd (ml_load fs mc f ms)) t
  | OLoadStr _ :: t => ml_hist mc fs ms t
  end.

(* the state after a history of loads and rewrites *)
Fixpoint run_hist (c : cfg) (fs : list file) (s : state) (ops : list op) : state :=
  match ops with
  | [] => s
  | OWrite f fc :: t => run_hist c (set_nth f fc fs) s t
  | OLoad f :: t => run_hist c fs (snd (load_main fs c f s)) t
  | OLoadStr fc :: t => run_hist c fs (snd (load_str fs c fc s)) t
  end.
