(* Model of how the built-in generators produce an output file (textx/generators.py gen_file,
   textx/export.py metamodel_export / model_export): a two-name file system (the target and
   the temporary name), the write protocol translated into Gen/SrcFs.v, and an injected
   failure at any point. *)
From TxV Require Import Core.Base Gen.SrcFs.

(* file content = the chunks written so far; a failing write may leave part of its chunk *)
Inductive piece := Chunk (i : nat) | PartOf (i : nat).
Record fs := { target : option (list piece); temp : option (list piece) }.

(* where the injected failure strikes *)
Inductive failure :=
| NoFailure
| AtOpen                      (* open() raises: nothing is created *)
| AtWrite (k : nat) (partial : bool)   (* the k-th write raises, possibly after writing part of its data *)
| AtClose                     (* flush/close raises *)
| AtReplace.                  (* os.replace raises *)

Definition set_open (f : fs) (c : option (list piece)) : fs :=
  if writes_to_temp then {| target := target f; temp := c |} else {| target := c; temp := temp f |}.
Definition get_open (f : fs) : option (list piece) := if writes_to_temp then temp f else target f.

(* write chunks i, i+1, ... ; returns the content and whether an exception was raised *)
Fixpoint write_all (chunks : list nat) (idx : nat) (fl : failure) (acc : list piece) : list piece * bool :=
  match chunks with
  | [] => (acc, false)
  | c :: r =>
      match fl with
      | AtWrite k partial =>
          if Nat.eqb k idx then ((if partial then acc ++ [PartOf c] else acc), true)
          else write_all r (S idx) fl (acc ++ [Chunk c])
      | _ => write_all r (S idx) fl (acc ++ [Chunk c])
      end
  end.

Definition on_error (f : fs) : fs :=
  if (writes_to_temp && removes_temp_on_error)%bool then {| target := target f; temp := None |} else f.

(* one run of an exporter; returns the file system and whether it raised *)
Definition export (f : fs) (chunks : list nat) (fl : failure) : fs * bool :=
  match fl with
  | AtOpen => (f, true)
  | _ =>
      let '(content, raised) := write_all chunks 0 fl [] in
      let f1 := set_open f (Some content) in
      if raised then (on_error f1, true)
      else match fl with
           | AtClose => (on_error f1, true)
           | _ =>
               if (writes_to_temp && replace_after_close)%bool then
                 match fl with
                 | AtReplace => (on_error f1, true)
                 | _ => ({| target := temp f1; temp := None |}, false)
                 end
               else (f1, false)
           end
  end.

(* gen_file: skip when the target exists and --overwrite is not given *)
Definition gen_file (overwrite : bool) (f : fs) (chunks : list nat) (fl : failure) : fs * bool :=
  if (overwrite || negb (skip_if_target_exists && match target f with Some _ => true | None => false end))%bool
  then export f chunks fl else (f, false).

Definition complete (chunks : list nat) : list piece := map Chunk chunks.
