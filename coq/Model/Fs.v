(* Model of how the built-in generators produce an output file (textx/generators.py gen_file,
   textx/export.py metamodel_export / model_export / _write_atomically).

   * a two-name file system (the target and the temporary name) plus the file object that is
     open for writing: the name its data goes to (it follows a rename, it is lost after an
     unlink) and the data that was written by the generator but not yet handed to the
     operating system (io.TextIOWrapper / io.BufferedWriter);
   * the write protocol as a small program translated from the source into Gen/SrcFs.v
     (`protocol`): open / the generator's writes / implicit close at the end of `with` /
     os.replace / os.remove in an exception handler, in the order and nesting of the source;
   * an arbitrary buffering policy: for every write call of the generator a `step` says whether
     it only buffers, or makes a low-level write of everything buffered, or makes a low-level
     write and keeps data buffered.  close() flushes what is left;
   * an injected failure at any point: open, any low-level write (once or persistently = disk
     full; with or without part of the data reaching the file) including the ones made by the
     flush inside close(), close itself, os.replace. *)
From TxV Require Import Core.Base Model.FsDefs Gen.SrcFs.

(* file content = the chunks that reached the file; a failing low-level write may leave part of a chunk *)
Inductive piece := Chunk (i : nat) | PartOf (i : nat).
Record fs := { target : option (list piece); temp : option (list piece) }.

(* where the data of the open file object goes *)
Inductive loc := AtTemp | AtTarget | Unlinked.
Record handle := { h_loc : loc; pending : list nat }.
Record state := { disk : fs; hnd : option handle; ev : nat (* low-level write events so far *) }.

(* what one write call of the generator does below the text layer *)
Inductive step :=
| Buf          (* the data stays in the buffer *)
| FlushAll     (* a low-level write; nothing stays buffered *)
| FlushKeep.   (* a low-level write of the older data; this call's data stays buffered *)

(* where the injected failure strikes *)
Inductive failure :=
| NoFailure
| AtOpen                       (* open() raises: nothing is created *)
| AtFlush (e : nat) (persistent partial : bool)
     (* the e-th low-level write event raises (and every later one if persistent), possibly after
        part of its data reached the file *)
| AtClose                      (* close() raises after its flush *)
| AtReplace.                   (* os.replace raises *)

Definition fails (fl : failure) (n : nat) : bool :=
  match fl with AtFlush e pers _ => if pers then Nat.leb e n else Nat.eqb e n | _ => false end.
Definition leaves_part (fl : failure) : bool :=
  match fl with AtFlush _ _ p => p | _ => false end.

Definition append_at (l : loc) (d : list piece) (f : fs) : fs :=
  match l with
  | AtTemp => match temp f with Some c => {| target := target f; temp := Some (c ++ d) |} | None => f end
  | AtTarget => match target f with Some c => {| target := Some (c ++ d); temp := temp f |} | None => f end
  | Unlinked => f
  end.

(* the file system, the open file object and the event counter while the file is open *)
Record ostate := { o_disk : fs; o_h : handle; o_ev : nat }.

(* one low-level write event of the open file: `towrite` goes to the file, `keep` stays buffered *)
Definition raw_event (fl : failure) (o : ostate) (towrite keep : list nat) : ostate * bool :=
  let l := h_loc (o_h o) in
  if fails fl (o_ev o) then
    ({| o_disk := if leaves_part fl then append_at l (map PartOf (firstn 1 (towrite ++ keep))) (o_disk o) else o_disk o;
        o_h := {| h_loc := l; pending := towrite ++ keep |};
        o_ev := S (o_ev o) |}, true)
  else
    ({| o_disk := append_at l (map Chunk towrite) (o_disk o);
        o_h := {| h_loc := l; pending := keep |};
        o_ev := S (o_ev o) |}, false).

Definition buffer (c : nat) (o : ostate) : ostate :=
  {| o_disk := o_disk o; o_h := {| h_loc := h_loc (o_h o); pending := pending (o_h o) ++ [c] |}; o_ev := o_ev o |}.

(* the generator's write calls *)
Fixpoint write_loop (chunks : list nat) (sched : list step) (fl : failure) (o : ostate) : ostate * bool :=
  match chunks with
  | [] => (o, false)
  | c :: r =>
      match hd Buf sched with
      | Buf => write_loop r (tl sched) fl (buffer c o)
      | FlushAll =>
          let '(o1, raised) := raw_event fl o (pending (o_h o) ++ [c]) [] in
          if raised then (o1, true) else write_loop r (tl sched) fl o1
      | FlushKeep =>
          let '(o1, raised) := raw_event fl o (pending (o_h o)) [c] in
          if raised then (o1, true) else write_loop r (tl sched) fl o1
      end
  end.

Definition opened (st : state) (h : handle) : ostate := {| o_disk := disk st; o_h := h; o_ev := ev st |}.
Definition still_open (o : ostate) : state := {| disk := o_disk o; hnd := Some (o_h o); ev := o_ev o |}.

(* close(): flush what is buffered (a low-level write only if there is something), then the file
   object is gone whether or not the flush worked *)
Definition close (fl : failure) (st : state) : state * bool :=
  match hnd st with
  | None => (st, false)
  | Some h =>
      let '(o1, raised) := match pending h with [] => (opened st h, false) | _ => raw_event fl (opened st h) (pending h) [] end in
      ({| disk := o_disk o1; hnd := None; ev := o_ev o1 |},
       (raised || match fl with AtClose => true | _ => false end)%bool)
  end.

Definition open_file (st : state) : state :=
  {| disk := if writes_to_temp then {| target := target (disk st); temp := Some [] |}
             else {| target := Some []; temp := temp (disk st) |};
     hnd := Some {| h_loc := if writes_to_temp then AtTemp else AtTarget; pending := [] |};
     ev := ev st |}.

Definition move_loc (from to : loc) (h : option handle) : option handle :=
  match h with
  | Some x => match h_loc x, from with
              | AtTemp, AtTemp => Some {| h_loc := to; pending := pending x |}
              | AtTarget, AtTarget => Some {| h_loc := to; pending := pending x |}
              | _, _ => h
              end
  | None => None
  end.

(* the environment: is the system temporary folder on another file system than the output folder (`xdev`),
   and is the temporary file created in the folder of the target (`same_dir`: a translated fact about how the
   temporary name is derived).  A rename across file systems fails (EXDEV); a file in the folder of the target
   is on the target's file system whatever `xdev` says. *)
Record env := { xdev : bool; same_dir : bool }.
Definition cross_device (e : env) : bool := (xdev e && negb (same_dir e))%bool.

(* the interpreter of the translated protocol; returns the state and whether an exception escapes *)
Fixpoint exec (p : prog) (chunks : list nat) (sched : list step) (fl : failure) (e : env) (st : state) : state * bool :=
  match p with
  | PSkip => (st, false)
  | PSeq a b =>
      let '(st1, raised) := exec a chunks sched fl e st in
      if raised then (st1, true) else exec b chunks sched fl e st1
  | POpen body =>                                   (* with open(name, 'w') as f: body *)
      match fl with
      | AtOpen => (st, true)
      | _ =>
          let '(st1, r1) := exec body chunks sched fl e (open_file st) in
          let '(st2, r2) := close fl st1 in
          (st2, (r1 || r2)%bool)
      end
  | PTry body handler =>                            (* try: body / except BaseException: handler; raise *)
      let '(st1, raised) := exec body chunks sched fl e st in
      if raised then (fst (exec handler chunks sched fl e st1), true) else (st1, false)
  | PWrite =>                                       (* write(f): the generator's write calls *)
      match hnd st with
      | Some h => let '(o, raised) := write_loop chunks sched fl (opened st h) in (still_open o, raised)
      | None => (st, true)
      end
  | PReplace =>                                     (* os.replace(tmp, file_name) *)
      match fl with
      | AtReplace => (st, true)
      | _ =>
          if cross_device e then (st, true)            (* EXDEV *)
          else
          match temp (disk st) with
          | Some c => ({| disk := {| target := Some c; temp := None |};
                          hnd := move_loc AtTemp AtTarget (move_loc AtTarget Unlinked (hnd st)); ev := ev st |}, false)
          | None => (st, true)
          end
      end
  | PMove =>                                        (* shutil.move(tmp, file_name) *)
      match temp (disk st) with
      | None => (st, true)
      | Some c =>
          if (cross_device e || match fl with AtReplace => true | _ => false end)%bool then
            (* os.rename failed: copy to the target (opened for writing: truncated, then filled by a low-level
               write event of its own), then unlink the temporary file *)
            if fails fl (ev st) then
              ({| disk := {| target := Some (if leaves_part fl then firstn 1 c else []); temp := Some c |};
                  hnd := move_loc AtTarget Unlinked (hnd st); ev := S (ev st) |}, true)
            else
              ({| disk := {| target := Some c; temp := None |};
                  hnd := move_loc AtTemp Unlinked (move_loc AtTarget Unlinked (hnd st)); ev := S (ev st) |}, false)
          else ({| disk := {| target := Some c; temp := None |};
                   hnd := move_loc AtTemp AtTarget (move_loc AtTarget Unlinked (hnd st)); ev := ev st |}, false)
      end
  | PRemoveTmp =>                                   (* with suppress(OSError): os.remove(tmp) *)
      ({| disk := {| target := target (disk st); temp := None |};
          hnd := move_loc AtTemp Unlinked (hnd st); ev := ev st |}, false)
  end.

(* one run of an exporter; returns the file system and whether it raised *)
Definition init (f : fs) : state := {| disk := f; hnd := None; ev := 0 |}.
Definition run (p : prog) (e : env) (f : fs) (chunks : list nat) (sched : list step) (fl : failure) : fs * bool :=
  let '(st, raised) := exec p chunks sched fl e (init f) in (disk st, raised).
(* `xd`: the system temporary folder is on another file system than the output folder *)
Definition export (xd : bool) (f : fs) (chunks : list nat) (sched : list step) (fl : failure) : fs * bool :=
  run protocol {| xdev := xd; same_dir := temp_same_dir |} f chunks sched fl.

(* gen_file: skip when the target exists and --overwrite is not given *)
Definition gen_file (xd overwrite : bool) (f : fs) (chunks : list nat) (sched : list step) (fl : failure) : fs * bool :=
  if (overwrite || negb (skip_if_target_exists && match target f with Some _ => true | None => false end))%bool
  then export xd f chunks sched fl else (f, false).

Definition complete (chunks : list nat) : list piece := map Chunk chunks.

(* number of low-level write events of an undisturbed run (the last one is the flush in close) *)
Fixpoint n_events_from (chunks : list nat) (sched : list step) (pend : bool) : nat :=
  match chunks with
  | [] => if pend then 1 else 0
  | _ :: r =>
      match hd Buf sched with
      | Buf => n_events_from r (tl sched) true
      | FlushAll => S (n_events_from r (tl sched) false)
      | FlushKeep => S (n_events_from r (tl sched) true)
      end
  end.
Definition n_events (chunks : list nat) (sched : list step) : nat := n_events_from chunks sched false.

(* a concrete buffering policy: a byte buffer of capacity `cap`; a write that does not fit flushes the
   buffer first, and is itself written through when it is larger than the buffer (io.BufferedWriter) *)
Fixpoint sched_of_buffer (cap : nat) (sizes : list nat) (used : nat) : list step :=
  match sizes with
  | [] => []
  | s :: r =>
      if Nat.leb (used + s) cap then Buf :: sched_of_buffer cap r (used + s)
      else if Nat.leb s cap then
             (match used with 0 => Buf | _ => FlushKeep end) :: sched_of_buffer cap r s
           else FlushAll :: sched_of_buffer cap r 0
  end.
