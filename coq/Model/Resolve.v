(* Model of the reference-resolution rounds of textx/model.py:
   ReferenceResolver.resolve_one_step (one pass over a model's pending cross-references,
   in textual order) and the outer loop of parse_tree_to_objgraph
   (`while unresolved_count > 0 and resolved_count > 0` over all included models).
   The behaviour-relevant choices of that code are NOT written down here: they are the
   constants of Gen/SrcResolve.v, regenerated from textx/model.py on every run by
   tools/translate/resolve_tr.py (how a resolved list reference is stored, at which end a
   Postponed reference is re-queued / reported, which resolutions count as progress, the
   loop condition and the error condition). *)
From TxV Require Import Core.Base Gen.SrcResolve.

Record xref := { xid : nat;                (* identity of the cross-reference *)
                 xslot : nat;              (* the (object, attribute) it belongs to *)
                 xmany : bool;             (* list attribute? *)
                 xpos : nat;               (* position of the reference text *)
                 xtgt : nat;               (* target named by the reference text (table provider) *)
                 xdeps : list nat;         (* references the table provider waits for *)
                 xnever : bool }.          (* table provider never resolves it *)

Inductive answer := Resolved (t : nat) | Postponed | NotFound.

(* what a load has stored so far; [asked] counts the provider calls per reference so that a
   provider may be any function of the history (every postponement schedule) *)
Record state := { tgt : nat -> option nat;             (* xid -> resolved target *)
                  lists : nat -> list (nat * nat);     (* slot -> (position, target), the list attribute *)
                  singles : nat -> option nat;         (* slot -> target, the scalar attribute *)
                  asked : nat -> nat;          (* xid -> provider calls made for it so far *)
                  log : list nat }.                    (* provider calls, most recent first *)

Definition init : state := {| tgt := fun _ => None; lists := fun _ => []; singles := fun _ => None; asked := fun _ => 0; log := [] |}.

Definition provider := xref -> state -> answer.

(* insertion keeping the list ordered by reference position (bisect_right) *)
Fixpoint insert_pos (p t : nat) (l : list (nat * nat)) : list (nat * nat) :=
  match l with
  | [] => [(p, t)]
  | (p', t') :: l' => if Nat.ltb p p' then (p, t) :: l else (p', t') :: insert_pos p t l'
  end.

(* how the source stores a resolved list reference (Gen fact) *)
Definition store_list (p t : nat) (l : list (nat * nat)) : list (nat * nat) :=
  if list_store_by_position then insert_pos p t l else l ++ [(p, t)].

Definition store (x : xref) (t : nat) (st : state) : state :=
  {| tgt := fun i => if Nat.eqb i (xid x) then Some t else tgt st i;
     lists := fun s => if (Nat.eqb s (xslot x) && xmany x)%bool then store_list (xpos x) t (lists st s) else lists st s;
     singles := fun s => if (Nat.eqb s (xslot x) && negb (xmany x))%bool then Some t else singles st s;
     asked := asked st; log := log st |}.

Definition bump (x : xref) (st : state) : state :=
  {| tgt := tgt st; lists := lists st; singles := singles st;
     asked := fun i => if Nat.eqb i (xid x) then S (asked st i) else asked st i;
     log := xid x :: log st |}.

(* a Postponed reference is put back at the back (append) or the front (insert(0, ...)) of a
   queue; the queue is built while walking the pending list front to back *)
Definition carry (front : bool) (x : xref) (later : list xref) : list xref :=
  if front then later ++ [x] else x :: later.

(* does resolving x increment resolved_crossref_count? (Gen facts) *)
Definition counted (x : xref) : nat :=
  if (if xmany x then counts_list_resolution else counts_scalar_resolution) then 1 else 0.

(* resolve_one_step: returns the new state, the new pending list (parser._crossrefs), the delayed
   references (self.delayed_crossrefs) and the progress count;
   None = the provider found nothing (Unknown object error) *)
Fixpoint step (ans : provider) (pend : list xref) (st : state) : option (state * list xref * list xref * nat) :=
  match pend with
  | [] => Some (st, [], [], 0)
  | x :: r =>
      match ans x st with
      | NotFound => None
      | Postponed => match step ans r (bump x st) with
                     | Some (st', np, d, c) => Some (st', carry postponed_requeued_at_front x np, carry postponed_reported_at_front x d, c)
                     | None => None
                     end
      | Resolved t => match step ans r (store x t (bump x st)) with
                      | Some (st', np, d, c) => Some (st', np, d, counted x + c)
                      | None => None
                      end
      end
  end.

(* one round over all models, in model order: state, pending lists, delayed lists, progress *)
Fixpoint round (ans : provider) (models : list (list xref)) (st : state)
  : option (state * list (list xref) * list (list xref) * nat) :=
  match models with
  | [] => Some (st, [], [], 0)
  | m :: ms =>
      match step ans m st with
      | None => None
      | Some (st1, np, d, c) =>
          match round ans ms st1 with
          | None => None
          | Some (st2, nps, ds, c') => Some (st2, np :: nps, d :: ds, c + c')
          end
      end
  end.

Inductive outcome := Ok (st : state) | Unresolvable (left : list (list xref)) (st : state) | UnknownObject | OutOfFuel.

Definition total (models : list (list xref)) : nat := length (concat models).

(* `counter > k` with counter = unresolved_count (true) or resolved_count (false) *)
Definition holds (unres res : nat) (c : bool * nat) : bool := Nat.ltb (snd c) (if fst c then unres else res).

(* the loop (both counters start at 1, so the first round always runs); afterwards the error
   test; the error names the delayed references of all models in model order *)
Fixpoint loop (fuel : nat) (ans : provider) (models : list (list xref)) (st : state) : outcome :=
  match fuel with
  | O => OutOfFuel
  | S f =>
      match round ans models st with
      | None => UnknownObject
      | Some (st', pends, dels, c) =>
          if forallb (holds (total dels) c) loop_condition then loop f ans pends st'
          else if holds (total dels) c error_condition then Unresolvable dels st'
          else Ok st'
      end
  end.

Definition load (ans : provider) (models : list (list xref)) : outcome := loop (S (total models)) ans models init.

(* the table-driven provider of C09: a reference resolves once everything it waits for has resolved *)
Definition is_some {A} (o : option A) : bool := match o with Some _ => true | None => false end.
(* providers given by a readiness predicate over the set of resolved references *)
Definition resolved_set (st : state) : nat -> bool := fun i => is_some (tgt st i).
Definition mono_ans (ready : xref -> (nat -> bool) -> bool) : provider := fun x st =>
  if ready x (resolved_set st) then Resolved (xtgt x) else Postponed.
Definition dep_ready (x : xref) (S : nat -> bool) : bool := (negb (xnever x) && forallb S (xdeps x))%bool.
Definition dep_ans : provider := mono_ans dep_ready.

(* a scripted provider for C08: reference i is postponed on its first delay(i) calls *)
Definition sched_ans (delay : nat -> nat) : provider := fun x st =>
  if Nat.ltb (asked st (xid x)) (delay (xid x)) then Postponed else Resolved (xtgt x).

(* the provider used by the correspondence harness: delay first, then the dependency table *)
Definition table_ans (delay : nat -> nat) : provider := fun x st =>
  if Nat.ltb (asked st (xid x)) (delay (xid x)) then Postponed else dep_ans x st.

(* ---------------------------------------------------------------- providers that ask the resolver
   Real scope providers decide "has the reference I depend on been resolved" with
   textx.scoping.tools.needs_to_be_resolved = ReferenceResolver.has_unresolved_crossrefs of the model
   that owns it, which scans parser._crossrefs.  That list is only replaced at the END of
   resolve_one_step, so the answer is a snapshot: a reference counts as settled once the step of its
   model in which it resolved has finished.  [settled] is that observable; it is fixed during a step
   and committed after it. *)
Definition sprovider := (nat -> bool) -> provider.

Definition commit (m : list xref) (st : state) (settled : nat -> bool) : nat -> bool :=
  fun i => if existsb (fun x => Nat.eqb i (xid x)) m then is_some (tgt st i) else settled i.

Fixpoint qround (ans : sprovider) (models : list (list xref)) (st : state) (settled : nat -> bool)
  : option (state * list (list xref) * list (list xref) * nat * (nat -> bool)) :=
  match models with
  | [] => Some (st, [], [], 0, settled)
  | m :: ms =>
      match step (ans settled) m st with
      | None => None
      | Some (st1, np, d, c) =>
          match qround ans ms st1 (commit m st1 settled) with
          | None => None
          | Some (st2, nps, ds, c', s2) => Some (st2, np :: nps, d :: ds, c + c', s2)
          end
      end
  end.

Fixpoint qloop (fuel : nat) (ans : sprovider) (models : list (list xref)) (st : state) (settled : nat -> bool) : outcome :=
  match fuel with
  | O => OutOfFuel
  | S f =>
      match qround ans models st settled with
      | None => UnknownObject
      | Some (st', pends, dels, c, settled') =>
          if forallb (holds (total dels) c) loop_condition then qloop f ans pends st' settled'
          else if holds (total dels) c error_condition then Unresolvable dels st'
          else Ok st'
      end
  end.

Definition qload (ans : sprovider) (models : list (list xref)) : outcome :=
  qloop (S (total models)) ans models init (fun _ => false).

(* the harness's provider in query mode: delay first, then the dependency table read through the snapshot *)
Definition snap_ans (delay : nat -> nat) : sprovider := fun settled x st =>
  if Nat.ltb (asked st (xid x)) (delay (xid x)) then Postponed
  else if xnever x then Postponed
  else if forallb settled (xdeps x) then Resolved (xtgt x) else Postponed.

(* providers of that kind given by a readiness predicate over the SETTLED set (what the resolvers
   answer), e.g. "every reference it waits for is no longer pending" *)
Definition smono_ans (ready : xref -> (nat -> bool) -> bool) : sprovider := fun settled x _ =>
  if ready x settled then Resolved (xtgt x) else Postponed.
