(* Executable model of the text side of textx/export.py.

   * dot_escape = the chain of single-character str.replace calls TRANSLATED from the source
     (Gen/SrcExport.v escape_chain), dot_repr = quoting + truncation at the translated limit.
   * The lexical structure of Graphviz DOT that escaping has to respect (lib/cgraph/scan.l):
       - a quoted string starts at a double quote and ends at the next double quote not consumed by an escape;
         inside, a backslash followed by a double quote or a backslash (or a newline) forms a pair, any other backslash is
         an ordinary character;   [qstep/qrun: the in-string machine, stuck (None) on the closing quote]
       - outside strings '<' opens an HTML string that ends at the matching '>';
       - '/' and '#' outside strings may open comments: the document machine rejects them instead of
         modelling comments (so a text it accepts contains none).     [dstep/drun]
   * Record labels (shape=record, lib/common/shapes.c parse_reclbl): the characters { } | < > structure
     the label unless preceded by a backslash; a backslash before anything else is kept.  [rstep/rrun]
   * tx (Model/ExportDefs.v): regular over-approximations of what the exporters write, translated
     from the source; `gen` is their language given what may fill each kind of hole (`fills`),
     `tx_run` the abstract execution of a machine over them (decidable; sound by Proofs/ExportProofs.v).
   * PlantUML: brace depth machine (bstep/brun).
   No proofs here. *)
From TxV Require Import Core.Base Model.ExportDefs Gen.SrcExport.

Definition c_quote : N := 34%N.
Definition c_bslash : N := 92%N.

(* ---------------------------------------------------------------- dot_escape, dot_repr *)
(* s.replace(c, r) for a one-character c *)
Definition replace1 (c : N) (r : list N) (s : list N) : list N :=
  flat_map (fun x => if N.eqb x c then r else [x]) s.

Definition apply_chain (chain : list (N * list N)) (s : list N) : list N :=
  fold_left (fun acc cr => replace1 (fst cr) (snd cr) acc) chain s.

Definition dot_escape (s : list N) : list N := apply_chain escape_chain s.

(* what the whole chain makes of one character *)
Definition esc1 (chain : list (N * list N)) (x : N) : list N := apply_chain chain [x].

(* dot_repr on a str: quote + escaped[:limit] + ...quote if len(escaped) > limit, else quote + escaped + quote (single quotes) *)
Definition dot_repr_str (s : list N) : list N :=
  let e := dot_escape s in
  if Nat.ltb repr_limit (length e)
  then [39%N] ++ firstn repr_limit e ++ [46; 46; 46; 39]%N
  else [39%N] ++ e ++ [39%N].

(* ---------------------------------------------------------------- inside a quoted string *)
(* state: is the previous character an unpaired backslash?  None: the string ended here *)
Definition qstep (esc : bool) (c : N) : option bool :=
  if esc then Some false
  else if N.eqb c c_quote then None
  else Some (N.eqb c c_bslash).

Fixpoint qrun (esc : bool) (s : list N) : option bool :=
  match s with
  | [] => Some esc
  | c :: s' => match qstep esc c with Some e => qrun e s' | None => None end
  end.

(* the scanner proper: started after the opening quote, returns the string's text and the rest *)
Fixpoint qsplit (esc : bool) (s : list N) : option (list N * list N) :=
  match s with
  | [] => None
  | c :: s' =>
      match qstep esc c with
      | None => Some ([], s')
      | Some e => match qsplit e s' with Some (body, rest) => Some (c :: body, rest) | None => None end
      end
  end.

Definition lex_qstring (s : list N) : option (list N * list N) :=
  match s with
  | c :: s' => if N.eqb c c_quote then qsplit false s' else None
  | [] => None
  end.

(* ---------------------------------------------------------------- the document machine *)
Inductive dstate := DOut | DIn | DEsc | DHtml (depth : nat).

Definition dstate_eqb (a b : dstate) : bool :=
  match a, b with
  | DOut, DOut | DIn, DIn | DEsc, DEsc => true
  | DHtml n, DHtml m => Nat.eqb n m
  | _, _ => false
  end.

Definition dstep (st : dstate) (c : N) : option dstate :=
  match st with
  | DOut => if N.eqb c c_quote then Some DIn
            else if N.eqb c 60 then Some (DHtml 0)
            else if N.eqb c 47 || N.eqb c 35 then None      (* '/' '#': comment openers, not modelled *)
            else Some DOut
  | DIn => if N.eqb c c_quote then Some DOut else if N.eqb c c_bslash then Some DEsc else Some DIn
  | DEsc => Some DIn
  | DHtml n => if N.eqb c 60 then Some (DHtml (S n))
               else if N.eqb c 62 then Some (match n with O => DOut | S m => DHtml m end)
               else Some (DHtml n)
  end.

Fixpoint run {S : Type} (step : S -> N -> option S) (st : S) (s : list N) : option S :=
  match s with
  | [] => Some st
  | c :: s' => match step st c with Some st' => run step st' s' | None => None end
  end.

Definition drun := run dstep.

(* ---------------------------------------------------------------- record labels *)
(* inside the text of a record label (parse_reclbl, Graphviz 2.4x): a backslash takes the next character with
   it, whatever it is; RBs = after such a backslash.  None: a structuring character { } | < > is exposed. *)
Inductive rstate := RNorm | RBs.
Definition is_ctrl (c : N) : bool := N.eqb c 123 || N.eqb c 125 || N.eqb c 124 || N.eqb c 60 || N.eqb c 62.
Definition rstep (st : rstate) (c : N) : option rstate :=
  match st with
  | RNorm => if is_ctrl c then None else if N.eqb c c_bslash then Some RBs else Some RNorm
  | RBs => Some RNorm
  end.
Definition rrun := run rstep.

(* ---------------------------------------------------------------- character classes of the hole kinds *)
Definition is_digit (c : N) : bool := N.leb 48 c && N.leb c 57.
Definition is_alpha (c : N) : bool := (N.leb 65 c && N.leb c 90) || (N.leb 97 c && N.leb c 122).
(* identifier characters of the grammar language ([^\d\W]\w*, dotted for fqn): ASCII word characters, '.',
   and anything outside ASCII (no ASCII punctuation) *)
Definition word_char (c : N) : bool := is_digit c || is_alpha c || N.eqb c 95 || N.eqb c 46 || N.leb 128 c.
Definition plain_char (c : N) : bool := word_char c || N.eqb c 43 || N.eqb c 45 || N.eqb c 42.

Definition fills (k : hkind) (w : list N) : Prop :=
  match k with
  | HDigits => forallb is_digit w = true
  | HIdent => forallb word_char w = true
  | HPlain => forallb plain_char w = true
  | HEscaped => exists s, w = dot_escape s
  | HPrim => (exists s, w = dot_repr_str s) \/ forallb plain_char w = true
  | HHtml => forallb (fun c => negb (N.eqb c 60) && negb (N.eqb c 62)) w = true
  | HRaw => True
  end.

(* the language of a template *)
Inductive gen : tx -> list N -> Prop :=
| GLit s : gen (TLit s) s
| GHole k w : fills k w -> gen (THole k) w
| GCatNil : gen (TCat []) []
| GCatCons t l w1 w2 : gen t w1 -> gen (TCat l) w2 -> gen (TCat (t :: l)) (w1 ++ w2)
| GAltHere t l w : gen t w -> gen (TAlt (t :: l)) w
| GAltNext t l w : gen (TAlt l) w -> gen (TAlt (t :: l)) w
| GStarNil t : gen (TStar t) []
| GStarCons t w1 w2 : gen t w1 -> gen (TStar t) w2 -> gen (TStar t) (w1 ++ w2).

(* ---------------------------------------------------------------- abstract execution over templates *)
(* A: abstract states; astep/ahole: abstract effect of a literal character / of a hole.  The concrete
   machines and the meaning of abstract states are supplied in Proofs/ExportProofs.v (tx_run_sound). *)
Section TxRun.
  Context {A : Type} (eqb : A -> A -> bool) (astep : A -> N -> option A) (ahole : hkind -> A -> option A).

  Fixpoint tx_run (t : tx) (st : A) : option A :=
    match t with
    | TLit s => run astep st s
    | THole k => ahole k st
    | TCat l =>
        (fix cat (l : list tx) (st : A) : option A :=
           match l with
           | [] => Some st
           | t :: l' => match tx_run t st with Some st' => cat l' st' | None => None end
           end) l st
    | TAlt l =>
        (* every alternative must lead to the same abstract state *)
        (fix alt (l : list tx) : option A :=
           match l with
           | [] => None
           | t :: l' =>
               match l' with
               | [] => tx_run t st
               | _ :: _ =>
                   match tx_run t st, alt l' with
                   | Some x, Some y => if eqb x y then Some x else None
                   | _, _ => None
                   end
               end
           end) l
    | TStar t => match tx_run t st with Some st' => if eqb st' st then Some st else None | None => None end
    end.
End TxRun.

(* -- quotes: the document machine is its own abstraction *)
Definition dhole (k : hkind) (st : dstate) : option dstate :=
  match k, st with
  | (HDigits | HIdent | HPlain), (DOut | DIn | DHtml _) => Some st
  | (HEscaped | HPrim), DIn => Some DIn
  | HHtml, DHtml n => Some (DHtml n)
  | _, _ => None
  end.

Definition doc_quotes_ok (t : tx) : bool :=
  match tx_run dstate_eqb dstep dhole t DOut with Some DOut => true | _ => false end.

(* -- record labels as the exporters write them: one flat record  { field | field | ... }.
   LStart: nothing read; LIn r: inside the braces, r = backslash state; LDone: closed, nothing may follow.
   Graphviz (parse_reclbl) accepts exactly such texts among those without nested braces and ports. *)
Inductive lstate := LStart | LIn (r : rstate) | LDone.
Definition rstate_eqb (a b : rstate) : bool := match a, b with RNorm, RNorm | RBs, RBs => true | _, _ => false end.
Definition lstate_eqb (a b : lstate) : bool :=
  match a, b with
  | LStart, LStart | LDone, LDone => true
  | LIn x, LIn y => rstate_eqb x y
  | _, _ => false
  end.

Definition lstep (st : lstate) (c : N) : option lstate :=
  match st with
  | LStart => if N.eqb c 123 then Some (LIn RNorm) else None
  | LIn RBs => Some (LIn RNorm)
  | LIn RNorm =>
      if N.eqb c 125 then Some LDone
      else if N.eqb c 124 then Some (LIn RNorm)
      else if N.eqb c 123 || N.eqb c 60 || N.eqb c 62 then None
      else if N.eqb c c_bslash then Some (LIn RBs) else Some (LIn RNorm)
  | LDone => None
  end.
Definition lrun := run lstep.

(* holes inside a label: only in the ordinary state (a hole may be empty), and only text that exposes nothing *)
Definition lhole (k : hkind) (st : lstate) : option lstate :=
  match k, st with
  | (HDigits | HIdent | HPlain | HEscaped | HPrim), LIn RNorm => Some st
  | _, _ => None
  end.

Definition label_ok (t : tx) : bool :=
  match tx_run lstate_eqb lstep lhole t LStart with Some LDone => true | _ => false end.

(* -- PlantUML: class bodies { ... } are not nested; None: a brace that opens inside a body or closes nothing *)
Definition bstep (d : bool) (c : N) : option bool :=
  if N.eqb c 123 then (if d then None else Some true)
  else if N.eqb c 125 then (if d then Some false else None)
  else Some d.
Definition brun := run bstep.

Definition bhole (k : hkind) (d : bool) : option bool :=
  match k with
  | HDigits | HIdent | HPlain => Some d
  | _ => None
  end.

(* a PlantUML document = header, class/link statements, trailer (legend + @enduml); the legend holds
   dot_escape'd rule texts whose braces are not structure, so balance is about everything before it *)
Definition plantuml_body (t : tx) : tx :=
  match t with
  | TCat l => TCat (removelast l)
  | _ => t
  end.

Definition braces_ok (t : tx) : bool :=
  match tx_run Bool.eqb bstep bhole t false with Some false => true | _ => false end.

(* ---------------------------------------------------------------- safety of the escape chain (decidable) *)
Definition opt_bool_eqb (a b : option bool) : bool :=
  match a, b with Some x, Some y => Bool.eqb x y | None, None => true | _, _ => false end.

(* every character the chain touches, the quote and the backslash come out as text that neither ends the
   string nor leaves a dangling backslash *)
Definition chain_safe (chain : list (N * list N)) : bool :=
  forallb (fun x => opt_bool_eqb (qrun false (esc1 chain x)) (Some false)) (c_quote :: c_bslash :: map fst chain).

(* record level: every character the chain touches, the backslash and the structuring characters come out as
   text that exposes no structuring character and leaves no dangling backslash *)
Definition ctrl_chars : list N := [123; 125; 124; 60; 62]%N.
Definition opt_rstate_eqb (a b : option rstate) : bool :=
  match a, b with Some x, Some y => rstate_eqb x y | None, None => true | _, _ => false end.
Definition chain_rsafe (chain : list (N * list N)) : bool :=
  forallb (fun x => opt_rstate_eqb (rrun RNorm (esc1 chain x)) (Some RNorm)) (c_bslash :: ctrl_chars ++ map fst chain).

(* ---------------------------------------------------------------- blocks: braces and brackets outside strings *)
(* state: lexical state, depth of { }, inside an attribute list [ ], the graph has been closed.
   Outside strings: a quote or a bracket needs an open graph; brackets do not nest and contain no brace; an HTML
   string only occurs inside an attribute list; the brace that returns to depth 0 closes the graph, after which only
   white space may follow; comment openers are rejected as in dstep. *)
Definition gstate := (dstate * nat * (bool * bool))%type.
Definition gstate_eqb (a b : gstate) : bool :=
  let '(l1, d1, (a1, c1)) := a in let '(l2, d2, (a2, c2)) := b in
  dstate_eqb l1 l2 && Nat.eqb d1 d2 && Bool.eqb a1 a2 && Bool.eqb c1 c2.
Definition is_ws (c : N) : bool := N.eqb c 32 || N.eqb c 10 || N.eqb c 9 || N.eqb c 13.

Definition gstep (st : gstate) (c : N) : option gstate :=
  let '(lx, d, (at_, cl)) := st in
  match lx with
  | DOut =>
      if cl then (if is_ws c then Some st else None)
      else if N.eqb c c_quote then (match d with O => None | _ => Some (DIn, d, (at_, cl)) end)
      else if N.eqb c 60 then (if at_ then Some (DHtml 0, d, (at_, cl)) else None)
      else if N.eqb c 47 || N.eqb c 35 then None
      else if N.eqb c 123 then (if at_ then None else Some (DOut, S d, (false, false)))
      else if N.eqb c 125 then
        (if at_ then None else
           match d with
           | O => None
           | S O => Some (DOut, O, (false, true))
           | S d' => Some (DOut, d', (false, false))
           end)
      else if N.eqb c 91 then (if at_ then None else match d with O => None | _ => Some (DOut, d, (true, cl)) end)
      else if N.eqb c 93 then (if at_ then Some (DOut, d, (false, cl)) else None)
      else Some st
  | _ => match dstep lx c with
         | Some DOut => Some (DOut, d, (at_, cl))
         | Some lx' => Some (lx', d, (at_, cl))
         | None => None
         end
  end.
Definition grun := run gstep.

Definition ghole (k : hkind) (st : gstate) : option gstate :=
  let '(lx, d, (at_, cl)) := st in
  match k, lx with
  | (HDigits | HIdent | HPlain), DOut => if cl then None else Some st
  | (HDigits | HIdent | HPlain), (DIn | DHtml _) => Some st
  | (HEscaped | HPrim), DIn => Some st
  | HHtml, DHtml _ => Some st
  | _, _ => None
  end.

Definition g_start : gstate := (DOut, O, (false, false)).
Definition g_final : gstate := (DOut, O, (false, true)).
Definition doc_blocks_ok (t : tx) : bool :=
  match tx_run gstate_eqb gstep ghole t g_start with Some st => gstate_eqb st g_final | None => false end.
