(* Data types shared by the generated SrcScope.v and the scope-selection model. *)
From TxV Require Import Core.Base.
Inductive part := PCls | PAttr | PLit (s : list N).
Inductive choice := FromGrammar | Registered (key : list N) | Default.
