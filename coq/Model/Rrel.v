(* RREL evaluation: textx/scoping/rrel.py  get_next_matches (all node classes), the
   `allowed` visited set of find_object_with_path, prevent_doubles of RRELZeroOrMore,
   find_object_with_path, find (with the '+p:' proxy path), name splitting.

   The Python generators form one depth-first search whose side effects (the visited set)
   happen in generator-resumption order; the search stops at the first accepted item.
   This is transcribed as continuation-passing evaluation threading the state [st]:
   `k c s` is "the consumer receives item c"; it answers RNone to ask for the next item
   and anything else to stop the whole search (found / Postponed / out of fuel).

   Node identity (`id(e)` in the visited keys) is the position of the node in the
   expression tree.  Fuel bounds the parent-chain loops and the depth of `*` recursion;
   running out is the distinguished answer ROof, excluded by the theorem statements.

   The '+m' (importURI) branch of RRELNavigation.apply is not modelled: expressions are
   evaluated without the 'm' flag.

   This file contains definitions only (model and specification relations). *)
From TxV Require Import Core.Base Core.Show Model.RrelSyntax.

(* ------------------------------------------------------------ object graphs *)
Inductive value :=
| VAbsent                 (* not hasattr(obj, name)                                   *)
| VNone                   (* attribute is None (or another falsy non-object)          *)
| VObj (o : nat)
| VList (l : list nat)
| VPost.                  (* needs_to_be_resolved(obj, name): unresolved reference    *)

Record model := {
  m_parent : nat -> option nat;          (* obj.parent if hasattr(obj, 'parent')        *)
  m_name : nat -> option (list N);       (* obj.name if it has one                       *)
  m_attr : nat -> list N -> value;
  m_conf : nat -> list N -> bool          (* textx_isinstance(obj, metamodel[T])          *)
}.

Definition vals (v : value) : list nat :=
  match v with VObj x => [x] | VList l => l | _ => [] end.

Definition conf_opt (m : model) (T : option (list N)) (o : nat) : bool :=
  match T with None => true | Some t => m_conf m o t end.

(* search item: current object, remaining name parts, matched path (named objects) *)
Record cfg := { c_obj : nat; c_names : list (list N); c_path : list nat }.
Definition mk (o : nat) (ns : list (list N)) (tr : list nat) : cfg :=
  {| c_obj := o; c_names := ns; c_path := tr |}.

(* get_model(obj): None = fuel exhausted *)
Fixpoint root_of (F : nat) (m : model) (o : nat) : option nat :=
  match m_parent m o with
  | None => Some o
  | Some p => match F with O => None | S F' => root_of F' m p end
  end.

(* RRELParent.apply: None = fuel exhausted, Some None = no such parent *)
Fixpoint apply_parent (F : nat) (m : model) (T : list N) (o : nat) : option (option nat) :=
  match m_parent m o with
  | None => Some None
  | Some p => if m_conf m p T then Some (Some p)
              else match F with O => None | S F' => apply_parent F' m T p end
  end.

(* RRELDots.apply *)
Fixpoint apply_dots (m : model) (num : nat) (o : nat) : option nat :=
  match num with
  | O => Some o
  | S O => Some o
  | S n' => match m_parent m o with Some p => apply_dots m n' p | None => None end
  end.

Definition name_is (m : model) (nm : list N) (x : nat) : bool :=
  match m_name m x with Some s => str_eqb s nm | None => false end.

Inductive step_out := SOuts (l : list cfg) | SPost | SOof.

(* RRELNavigation.apply followed by the unpacking in RRELBase.get_next_matches *)
Definition apply_nav (F : nat) (m : model) (name : list N) (consume : bool) (fixed : option (list N))
           (first : bool) (c : cfg) : step_out :=
  match (if first then root_of F m (c_obj c) else Some (c_obj c)) with
  | None => SOof
  | Some b =>
      match consume, c_names c with
      | true, [] => SOuts []
      | _, _ =>
          match m_attr m b name with
          | VPost => SPost
          | VAbsent => SOuts []
          | v =>
              match consume, fixed with
              | false, None => SOuts (map (fun x => mk x (c_names c) (c_path c)) (vals v))
              | _, Some f =>
                  match List.find (name_is m f) (vals v) with
                  | Some x => SOuts [mk x (c_names c) (c_path c ++ [x])]
                  | None => SOuts []
                  end
              | true, None =>
                  match c_names c with
                  | nm :: rest =>
                      match List.find (name_is m nm) (vals v) with
                      | Some x => SOuts [mk x rest (c_path c ++ [x])]
                      | None => SOuts []
                      end
                  | [] => SOuts []
                  end
              end
          end
      end
  end.

(* start_locally / start_at_root *)
Fixpoint sl_elem (e : elem) : bool :=
  match e with
  | EParent _ => true | ENav _ _ _ => false | EDots _ => true
  | EBr s => sl_seq s | EStar s => sl_seq s
  end
with sl_path (p : path) : bool := match p with P1 e => sl_elem e | PCons e _ => sl_elem e end
with sl_seq (s : seq) : bool := match s with S1 p => sl_path p | SCons p s' => sl_path p || sl_seq s' end.

Fixpoint sr_elem (e : elem) : bool :=
  match e with
  | EParent _ => false | ENav _ _ _ => true | EDots _ => false
  | EBr s => sr_seq s | EStar s => sr_seq s
  end
with sr_path (p : path) : bool := match p with P1 e => sr_elem e | PCons e _ => sr_elem e end
with sr_seq (s : seq) : bool := match s with S1 p => sr_path p | SCons p s' => sr_path p || sr_seq s' end.

(* ------------------------------------------------------------ search state *)
Inductive res := RNone | RFound (o : nat) (tr : list nat) | RPost | ROof.

(* visited key: (id(obj), id(node), len(lookup_list), first_element) *)
Record st := {
  vis : list (nat * list nat * nat * bool);
  pds : list (nat * list nat * nat * nat);   (* prevent_doubles sets: (invocation, its `*` node, id(obj), len);
                                           the node is determined by the invocation (kept for the proofs) *)
  nxt : nat;                           (* next prevent_doubles invocation number          *)
  hit : bool                           (* instrumentation: some item was pruned           *)
}.
Definition st0 : st := {| vis := []; pds := []; nxt := 0; hit := false |}.

Definition pos_eqb (a b : list nat) : bool :=
  (fix go (a b : list nat) : bool :=
     match a, b with
     | [], [] => true
     | x :: a', y :: b' => Nat.eqb x y && go a' b'
     | _, _ => false
     end) a b.

Definition key_eqb (a b : nat * list nat * nat * bool) : bool :=
  let '(o1, p1, l1, f1) := a in let '(o2, p2, l2, f2) := b in
  Nat.eqb o1 o2 && pos_eqb p1 p2 && Nat.eqb l1 l2 && Bool.eqb f1 f2.

Definition pd_eqb (a b : nat * list nat * nat * nat) : bool :=
  let '(i1, p1, o1, l1) := a in let '(i2, p2, o2, l2) := b in
  Nat.eqb i1 i2 && pos_eqb p1 p2 && Nat.eqb o1 o2 && Nat.eqb l1 l2.

Notation kont := (cfg -> st -> res * st) (only parsing).

(* `if not allowed(obj, lookup_list, self[, first_element]): return`.
   kf = true: the key contains first_element (the repaired code); kf = false: the key as
   it was before the repair (kept so that the old behaviour can be exhibited). *)
Definition guard (kf : bool) (pos : list nat) (first : bool) (c : cfg) (s : st)
           (body : st -> res * st) : res * st :=
  let key := (c_obj c, pos, List.length (c_names c), kf && first) in
  if existsb (key_eqb key) (vis s)
  then (RNone, {| vis := vis s; pds := pds s; nxt := nxt s; hit := true |})
  else body {| vis := key :: vis s; pds := pds s; nxt := nxt s; hit := hit s |}.

Fixpoint iter_outs (l : list cfg) (k : kont) (s : st) : res * st :=
  match l with
  | [] => (RNone, s)
  | c :: l' => let '(r, s') := k c s in
               match r with RNone => iter_outs l' k s' | _ => (r, s') end
  end.

(* the outer loop of RRELZeroOrMore.get_next_matches: drop (obj, len) doubles *)
Definition pd_filter (id : nat) (pos : list nat) (k : kont) : kont :=
  fun c s =>
    let e := (id, pos, c_obj c, List.length (c_names c)) in
    if existsb (pd_eqb e) (pds s)
    then (RNone, {| vis := vis s; pds := pds s; nxt := nxt s; hit := true |})
    else k c {| vis := vis s; pds := e :: pds s; nxt := nxt s; hit := hit s |}.

(* the zero-iteration yields of get_from_zero_or_more *)
Definition star_zero (sl sr : bool) (F : nat) (m : model) (k' : kont)
           (first : bool) (c : cfg) (s1 : st) : res * st :=
  if first then
    let '(r1, s1') := if sl then k' c s1 else (RNone, s1) in
    match r1 with
    | RNone =>
        if sr then
          match root_of F m (c_obj c) with
          | Some rt => k' (mk rt (c_names c) (c_path c)) s1'
          | None => (ROof, s1')
          end
        else (RNone, s1')
    | _ => (r1, s1')
    end
  else k' c s1.

(* get_from_zero_or_more; evs = self.path_element.seq.get_next_matches *)
Fixpoint gfz (evs : bool -> cfg -> kont -> st -> res * st) (sl sr : bool)
         (F : nat) (m : model) (kf : bool) (pos : list nat) (k' : kont)
         (n : nat) (first : bool) (c : cfg) (s : st) : res * st :=
  match n with
  | O => (ROof, s)
  | S n' =>
      guard kf pos first c s (fun s1 =>
        let '(r, s2) := star_zero sl sr F m k' first c s1 in
        match r with
        | RNone => evs first c (fun c1 s3 => gfz evs sl sr F m kf pos k' n' false c1 s3) s2
        | _ => (r, s2)
        end)
  end.

Fixpoint ev_elem (F : nat) (m : model) (kf : bool) (pos : list nat) (e : elem)
         (first : bool) (c : cfg) (k : kont) (s : st) {struct e} : res * st :=
  match e with
  | EParent T =>
      guard kf pos first c s (fun s1 =>
        match apply_parent F m T (c_obj c) with
        | None => (ROof, s1)
        | Some None => (RNone, s1)
        | Some (Some p) => k (mk p (c_names c) (c_path c)) s1
        end)
  | ENav name consume fixed =>
      guard kf pos first c s (fun s1 =>
        match apply_nav F m name consume fixed first c with
        | SOuts l => iter_outs l k s1
        | SPost => (RPost, s1)
        | SOof => (ROof, s1)
        end)
  | EDots num =>
      guard kf pos first c s (fun s1 =>
        match apply_dots m num (c_obj c) with
        | Some p => k (mk p (c_names c) (c_path c)) s1
        | None => (RNone, s1)
        end)
  | EBr sq =>
      guard kf pos first c s (fun s1 => ev_seq F m kf (0 :: pos) sq first c k s1)
  | EStar sq =>
      let id := nxt s in
      let s0 := {| vis := vis s; pds := pds s; nxt := S id; hit := hit s |} in
      gfz (fun f c1 k1 s1 => ev_seq F m kf (0 :: pos) sq f c1 k1 s1) (sl_seq sq) (sr_seq sq)
          F m kf pos (pd_filter id pos k) F first c s0
  end
with ev_path (F : nat) (m : model) (kf : bool) (q : list nat) (i j : nat) (p : path)
         (first : bool) (c : cfg) (k : kont) (s : st) {struct p} : res * st :=
  match p with
  | P1 e => ev_elem F m kf (j :: i :: q) e first c k s
  | PCons e p' =>
      ev_elem F m kf (j :: i :: q) e first c
              (fun c1 s1 => ev_path F m kf q i (S j) p' false c1 k s1) s
  end
(* RRELSequence.get_next_matches: the guard is applied once, by the caller ev_seq below;
   this is the loop over self.paths starting at path number i *)
with ev_alts (F : nat) (m : model) (kf : bool) (q : list nat) (i : nat) (sq : seq)
         (first : bool) (c : cfg) (k : kont) (s : st) {struct sq} : res * st :=
  match sq with
  | S1 p => ev_path F m kf q i 0 p first c k s
  | SCons p sq' =>
      let '(r, s1) := ev_path F m kf q i 0 p first c k s in
      match r with
      | RNone => ev_alts F m kf q (S i) sq' first c k s1
      | _ => (r, s1)
      end
  end
with ev_seq (F : nat) (m : model) (kf : bool) (q : list nat) (sq : seq)
         (first : bool) (c : cfg) (k : kont) (s : st) {struct sq} : res * st :=
  guard kf q first c s (fun s1 =>
    match sq with
    | S1 p => ev_path F m kf q 0 0 p first c k s1
    | SCons p sq' =>
        let '(r, s2) := ev_path F m kf q 0 0 p first c k s1 in
        match r with
        | RNone => ev_alts F m kf q 1 sq' first c k s2
        | _ => (r, s2)
        end
    end).

(* the acceptance test of find_object_with_path *)
Definition final (m : model) (T : option (list N)) : kont :=
  fun c s =>
    match c_names c with
    | [] => if conf_opt m T (c_obj c) then (RFound (c_obj c) (c_path c), s) else (RNone, s)
    | _ :: _ => (RNone, s)
    end.

(* find_object_with_path: `for p in rrel_tree.paths` (the top sequence's own
   get_next_matches, hence its guard, is bypassed) *)
Definition fowp (F : nat) (m : model) (kf : bool) (sq : seq) (o : nat) (names : list (list N))
           (T : option (list N)) : res * st :=
  ev_alts F m kf [] 0 sq true (mk o names []) (final m T) st0.

(* find: the value handed to the caller.  With use_proxy the ReferenceProxy path is the
   matched path, completed by the target when the matched path does not end in it
   (the repaired behaviour). *)
Inductive fres := FNone | FObj (o : nat) | FProxy (path : list nat) | FPost | FOof.

Definition proxy_path (t : nat) (tr : list nat) : list nat :=
  match rev tr with
  | x :: _ => if Nat.eqb x t then tr else tr ++ [t]
  | [] => [t]
  end.

Definition find (F : nat) (m : model) (kf : bool) (sq : seq) (o : nat) (names : list (list N))
           (T : option (list N)) (use_proxy : bool) : fres :=
  match fst (fowp F m kf sq o names T) with
  | RFound t tr => if use_proxy then FProxy (proxy_path t tr) else FObj t
  | RNone => FNone
  | RPost => FPost
  | ROof => FOof
  end.

Definition find_hit (F : nat) (m : model) (kf : bool) (sq : seq) (o : nat) (names : list (list N))
           (T : option (list N)) : bool := hit (snd (fowp F m kf sq o names T)).

(* ------------------------------------------------------------ name splitting
   lookup_list.split(split_string) followed by dropping the empty parts *)
Fixpoint split_go (fuel : nat) (sep : list N) (s : list N) (cur : list N) : list (list N) :=
  match fuel with
  | O => [rev cur]
  | S fuel' =>
      match s with
      | [] => [rev cur]
      | ch :: s' =>
          if is_prefix sep s
          then rev cur :: split_go fuel' sep (skipn (List.length sep) s) []
          else split_go fuel' sep s' (ch :: cur)
      end
  end.

Definition nonempty (s : list N) : bool := match s with [] => false | _ => true end.

(* sep must be non-empty (str.split raises ValueError otherwise) *)
Definition split_name (sep : list N) (s : list N) : list (list N) :=
  filter nonempty (split_go (S (List.length s)) sep s []).

(* ------------------------------------------------------------ specification:
   one expansion of the expression, applied to the model.  r_elem e first c c' : some
   expansion of e (0..n unfoldings of each `*`, one alternative of each `,`) leads from
   item c to item c'.  A consuming step moves to an element named by the next name part,
   a fixed-name step to an element carrying the fixed name; both append it to the path. *)
Section Spec.
  Variable m : model.

  Inductive anc : nat -> nat -> Prop :=
  | anc_refl o : anc o o
  | anc_step o p r : m_parent m o = Some p -> anc p r -> anc o r.

  Definition is_root_of (o r : nat) : Prop := anc o r /\ m_parent m r = None.

  (* nearest strict ancestor conforming to T *)
  Inductive nearest : list N -> nat -> nat -> Prop :=
  | near_here T o p : m_parent m o = Some p -> m_conf m p T = true -> nearest T o p
  | near_up T o q p : m_parent m o = Some q -> m_conf m q T = false -> nearest T q p -> nearest T o p.

  Inductive up : nat -> nat -> nat -> Prop :=       (* up n o p: p is the n-th parent of o *)
  | up_0 o : up 0 o o
  | up_S n o q p : m_parent m o = Some q -> up n q p -> up (S n) o p.

  Definition base_of (first : bool) (o b : nat) : Prop :=
    if first then is_root_of o b else b = o.

  Inductive r_elem : elem -> bool -> cfg -> cfg -> Prop :=
  | R_parent T first c p :
      nearest T (c_obj c) p -> r_elem (EParent T) first c (mk p (c_names c) (c_path c))
  | R_dots num first c p :
      up (pred num) (c_obj c) p -> r_elem (EDots num) first c (mk p (c_names c) (c_path c))
  | R_nav_all name first c b x :
      base_of first (c_obj c) b -> In x (vals (m_attr m b name)) ->
      r_elem (ENav name false None) first c (mk x (c_names c) (c_path c))
  | R_nav_consume name first c b x nm rest :
      base_of first (c_obj c) b -> In x (vals (m_attr m b name)) ->
      c_names c = nm :: rest -> m_name m x = Some nm ->
      r_elem (ENav name true None) first c (mk x rest (c_path c ++ [x]))
  | R_nav_fixed name consume f first c b x :
      base_of first (c_obj c) b -> In x (vals (m_attr m b name)) ->
      (consume = true -> c_names c <> []) -> m_name m x = Some f ->
      r_elem (ENav name consume (Some f)) first c (mk x (c_names c) (c_path c ++ [x]))
  | R_br sq first c c' : r_seq sq first c c' -> r_elem (EBr sq) first c c'
  | R_star_stay sq c : r_elem (EStar sq) false c c
  | R_star_local sq c : sl_seq sq = true -> r_elem (EStar sq) true c c
  | R_star_root sq c rt :
      sr_seq sq = true -> is_root_of (c_obj c) rt ->
      r_elem (EStar sq) true c (mk rt (c_names c) (c_path c))
  | R_star_more sq first c c1 c2 :
      r_seq sq first c c1 -> r_elem (EStar sq) false c1 c2 -> r_elem (EStar sq) first c c2
  with r_path : path -> bool -> cfg -> cfg -> Prop :=
  | RP_one e first c c' : r_elem e first c c' -> r_path (P1 e) first c c'
  | RP_cons e p first c c1 c2 :
      r_elem e first c c1 -> r_path p false c1 c2 -> r_path (PCons e p) first c c2
  with r_seq : seq -> bool -> cfg -> cfg -> Prop :=
  | RS_one p first c c' : r_path p first c c' -> r_seq (S1 p) first c c'
  | RS_head p sq first c c' : r_path p first c c' -> r_seq (SCons p sq) first c c'
  | RS_tail p sq first c c' : r_seq sq first c c' -> r_seq (SCons p sq) first c c'.

  (* t is a justified result: reachable by one expansion, every name part consumed, type
     conforms; tr = the named objects traversed (selected by consuming / fixed-name steps) *)
  Definition justified (sq : seq) (o : nat) (names : list (list N)) (T : option (list N))
             (t : nat) (tr : list nat) : Prop :=
    r_seq sq true (mk o names []) (mk t [] tr) /\ conf_opt m T t = true.

  (* the consumed name parts occur, in order, as names of objects of the path *)
  Inductive embeds : list (list N) -> list nat -> Prop :=
  | emb_nil : embeds [] []
  | emb_take nm ns x xs : m_name m x = Some nm -> embeds ns xs -> embeds (nm :: ns) (x :: xs)
  | emb_skip ns x xs : embeds ns xs -> embeds ns (x :: xs).

  (* sibling names are unique: in every attribute value at most one element carries a
     given name (then `lst[0]` is the only candidate) *)
  Definition siblings_unique : Prop :=
    forall o a x y nm, In x (vals (m_attr m o a)) -> In y (vals (m_attr m o a)) ->
                       m_name m x = Some nm -> m_name m y = Some nm -> x = y.

  Definition no_unresolved : Prop := forall o a, m_attr m o a <> VPost.
End Spec.

(* expressions without fixed-name steps *)
Fixpoint nofix_elem (e : elem) : bool :=
  match e with
  | ENav _ _ (Some _) => false
  | EBr s => nofix_seq s | EStar s => nofix_seq s
  | _ => true
  end
with nofix_path (p : path) : bool :=
  match p with P1 e => nofix_elem e | PCons e p' => nofix_elem e && nofix_path p' end
with nofix_seq (s : seq) : bool :=
  match s with S1 p => nofix_path p | SCons p s' => nofix_path p && nofix_seq s' end.

(* ------------------------------------------------------------ table models (for evaluation) *)
Record orow := {
  o_parent : option nat; o_name : option (list N);
  o_attrs : list (list N * value); o_conf : list (list N)
}.
Definition row0 : orow := {| o_parent := None; o_name := None; o_attrs := []; o_conf := [] |}.

Fixpoint assoc_attr (a : list N) (l : list (list N * value)) : value :=
  match l with
  | [] => VAbsent
  | (b, v) :: l' => if str_eqb a b then v else assoc_attr a l'
  end.

Definition of_table (t : list orow) : model := {|
  m_parent := fun o => o_parent (nth o t row0);
  m_name := fun o => o_name (nth o t row0);
  m_attr := fun o a => assoc_attr a (o_attrs (nth o t row0));
  m_conf := fun o T => mem_str T (o_conf (nth o t row0))
|}.

Definition show_fres (r : fres) : string :=
  match r with
  | FNone => "None"
  | FObj o => "Obj(" ++ show_nat o ++ ")"
  | FProxy p => "Proxy(" ++ show_list show_nat p ++ ")"
  | FPost => "Postponed"
  | FOof => "OOF"
  end.

Definition show_names (l : list (list N)) : string := show_list show_str l.

(* decidable form of [siblings_unique] for table models (mirrored by the check's classifier) *)
Definition names_unique_in (t : list orow) (l : list nat) : bool :=
  forallb (fun x => forallb (fun y =>
    match o_name (nth x t row0), o_name (nth y t row0) with
    | Some a, Some b => if str_eqb a b then Nat.eqb x y else true
    | _, _ => true
    end) l) l.

Definition siblings_unique_tbl (t : list orow) : bool :=
  forallb (fun row => forallb (fun av => names_unique_in t (vals (snd av))) (o_attrs row)) t.

(* ------------------------------------------------------------ completeness certificate
   A decidable closure condition on a set V of visited keys (obj, node, remaining length, first):
   every key of V has all its successors handled - the next guard's key is again in V, or the
   acceptance test fails.  The visited set left by a failed search is such a V (validated on every
   generated case); Proofs: a closed V admits no justified result (under unique sibling names). *)
Section Cert.
  Variable F : nat.
  Variable m : model.
  Variable names0 : list (list N).
  Variable V : list (nat * list nat * nat * bool).

  Definition sufl (l : nat) : list (list N) := skipn (List.length names0 - l) names0.
  Definition memk (k : nat * list nat * nat * bool) : bool := existsb (key_eqb k) V.
  Definition keys_at (pos : list nat) : list (nat * list nat * nat * bool) :=
    filter (fun k => pos_eqb (snd (fst (fst k))) pos) V.
  Definition hnext (pos : list nat) : nat -> list (list N) -> bool :=
    fun o ns => memk (o, pos, List.length ns, false).

  Definition base_key_ok (e : elem) (H : nat -> list (list N) -> bool) (k : nat * list nat * nat * bool) : bool :=
    let '(o, _, l, f) := k in
    match e with
    | EParent T => match apply_parent F m T o with
                   | Some (Some p) => H p (sufl l) | Some None => true | None => false end
    | ENav n cs fx => match apply_nav F m n cs fx f (mk o (sufl l) []) with
                      | SOuts outs => forallb (fun c' => H (c_obj c') (c_names c')) outs
                      | _ => false end
    | EDots n => match apply_dots m n o with Some p => H p (sufl l) | None => true end
    | _ => true
    end.
  Definition base_rule (pos : list nat) (e : elem) (H : nat -> list (list N) -> bool) : bool :=
    forallb (base_key_ok e H) (keys_at pos).

  Fixpoint firsts_in (q : list nat) (i : nat) (sq : seq) (o l : nat) (f : bool) : bool :=
    match sq with
    | S1 _ => memk (o, 0 :: i :: q, l, f)
    | SCons _ sq' => memk (o, 0 :: i :: q, l, f) && firsts_in q (S i) sq' o l f
    end.

  Definition seq_key_ok (q : list nat) (sq : seq) (k : nat * list nat * nat * bool) : bool :=
    let '(o, _, l, f) := k in firsts_in q 0 sq o l f.
  Definition seq_rule (q : list nat) (sq : seq) : bool := forallb (seq_key_ok q sq) (keys_at q).

  Definition br_key_ok (pos : list nat) (k : nat * list nat * nat * bool) : bool :=
    let '(o, _, l, f) := k in memk (o, 0 :: pos, l, f).
  Definition br_rule (pos : list nat) : bool := forallb (br_key_ok pos) (keys_at pos).

  Definition star_key_ok (pos : list nat) (sl sr : bool) (H : nat -> list (list N) -> bool)
             (k : nat * list nat * nat * bool) : bool :=
    let '(o, _, l, f) := k in
    memk (o, 0 :: pos, l, f) &&
    (if f then implb sl (H o (sufl l)) &&
               implb sr (match root_of F m o with Some rt => H rt (sufl l) | None => false end)
     else H o (sufl l)).
  Definition star_rule (pos : list nat) (sl sr : bool) (H : nat -> list (list N) -> bool) : bool :=
    forallb (star_key_ok pos sl sr H) (keys_at pos).

  Fixpoint ck_elem (pos : list nat) (e : elem) (H : nat -> list (list N) -> bool) {struct e} : bool :=
    match e with
    | EBr sq => br_rule pos && seq_rule (0 :: pos) sq && ck_alts (0 :: pos) 0 sq H
    | EStar sq => star_rule pos (sl_seq sq) (sr_seq sq) H && seq_rule (0 :: pos) sq
                  && ck_alts (0 :: pos) 0 sq (hnext pos)
    | _ => base_rule pos e H
    end
  with ck_path (q : list nat) (i j : nat) (p : path) (H : nat -> list (list N) -> bool) {struct p} : bool :=
    match p with
    | P1 e => ck_elem (j :: i :: q) e H
    | PCons e p' => ck_elem (j :: i :: q) e (hnext (S j :: i :: q)) && ck_path q i (S j) p' H
    end
  with ck_alts (q : list nat) (i : nat) (sq : seq) (H : nat -> list (list N) -> bool) {struct sq} : bool :=
    match sq with
    | S1 p => ck_path q i 0 p H
    | SCons p sq' => ck_path q i 0 p H && ck_alts q (S i) sq' H
    end.

  Definition hfinal (T : option (list N)) : nat -> list (list N) -> bool :=
    fun o ns => negb (match ns with [] => conf_opt m T o | _ :: _ => false end).

  Definition closure_ok (sq : seq) (o : nat) (T : option (list N)) : bool :=
    firsts_in [] 0 sq o (List.length names0) true && ck_alts [] 0 sq (hfinal T).
End Cert.

(* the certificate check applied to the visited set a search leaves behind *)
Definition find_certified (F : nat) (m : model) (kf : bool) (sq : seq) (o : nat) (names : list (list N))
           (T : option (list N)) : bool :=
  closure_ok F m names (vis (snd (fowp F m kf sq o names T))) sq o T.
