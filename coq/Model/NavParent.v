(* C05 — what get_children does when a grammar attribute is called `parent` (the known finding
   parent-attr-collision): Python's `getattr(elem, "parent")` does not yield the slot's value but
   whatever the Python attribute `parent` holds (the container, for a nested object), so the
   traversal is no longer a recursion on the containment tree.  [followp] is get_children's inner
   `follow` over that reading, with the recursion depth as fuel ([FRecursion] = Python's
   RecursionError at depth [fuel]); iterating over a model object is a TypeError.  No proofs. *)
From TxV Require Import Core.Base Model.Nav.

Inductive fres := FOk (st : state) | FRecursion | FTypeError.
Definition bindf (r : fres) (k : state -> fres) : fres := match r with FOk st => k st | e => e end.

Definition node_by_id (id : N) (root : obj) : option obj :=
  find (fun o => N.eqb (obj_id o) id) (nodes root).

Inductive pyval := PyVals (vs : list obj) | PyObj (o : obj).

(* getattr(elem, attr_name) for the slot (m, vs) of the object with identity id *)
Definition py_getattr (root : obj) (h : heap) (id : N) (m : ameta) (vs : list obj) : pyval :=
  if str_eqb (aname m) s_parent then
    match lookup id h with
    | Some ho =>
        match hparent ho with
        | Some (PObj q) => match node_by_id q root with Some o => PyObj o | None => PyVals vs end
        | _ => PyVals vs
        end
    | None => PyVals vs
    end
  else PyVals vs.

Definition elemsp (F : obj -> state -> fres) (sf : obj -> bool) : list obj -> state -> fres :=
  fix elems (vs : list obj) (st : state) : fres :=
    match vs with
    | [] => FOk st
    | v :: vs' => bindf (if sf v then F v st else FOk st) (elems vs')
    end.

Definition attrsp (root : obj) (h : heap) (id : N) (F : obj -> state -> fres) (sf : obj -> bool)
  : list (ameta * list obj) -> state -> fres :=
  fix attrs (ss : list (ameta * list obj)) (st : state) : fres :=
    match ss with
    | [] => FOk st
    | (m, vs) :: ss' =>
        bindf (if acont m then
                 match py_getattr root h id m vs with
                 | PyVals vs =>
                     if amany m then elemsp F sf vs st
                     else match vs with [] => FOk st | v :: _ => if sf v then F v st else FOk st end
                 | PyObj o =>
                     if amany m then FTypeError            (* `for new_elem in <model object>` *)
                     else if sf o then F o st else FOk st
                 end
               else FOk st) (attrs ss')
    end.

Fixpoint followp (root : obj) (h : heap) (fuel : nat) (sel sf : obj -> bool) (cf : bool)
         (elem : obj) (st : state) {struct fuel} : fres :=
  match fuel with
  | O => FRecursion
  | S f =>
      match elem with
      | Node id _ slots =>
          if mem_N id (snd st) then FOk st
          else
            let st1 := if (negb cf && sel elem)%bool then collect elem id st else st in
            bindf (attrsp root h id (followp root h f sel sf cf) sf slots st1)
                  (fun st2 => FOk (if (cf && sel elem)%bool then collect elem id st2 else st2))
      | _ => FOk st
      end
  end.
