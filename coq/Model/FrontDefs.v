(* C23 — types shared by the generated source facts (Gen/SrcFront.v) and the front-end model. *)
From TxV Require Import Core.Base.

(* A Python exception type as far as `except` can tell: its class name and the class names of its MRO
   (itself included).  Oracles and inputs that raise answer with one of these. *)
Record exc := { x_name : list N; x_mro : list (list N) }.

(* TextXError classes. *)
Inductive txclass := CSyntax | CSemantic | CPlain | CRegistration.

(* Which check fired (compared with the implementation through its message). *)
Inductive why :=
  WParse | WParam | WWsParam | WSplit | WRegex | WEscape | WOptMods | WAsgMods
| WMultiBool | WPrimRef | WBoolRep | WBoolMany | WRuleRef | WClsRef | WRegistration
| WUserRedef | WUserUnused.

(* Crash n: an exception of class n that is not a TextXError leaves metamodel_from_str. *)
Inductive outcome := Ok | TxErr (c : txclass) (w : why) | Crash (name : list N).

Definition n_TypeError : list N := [84;121;112;101;69;114;114;111;114]%N.
Definition n_AttributeError : list N := [65;116;116;114;105;98;117;116;101;69;114;114;111;114]%N.
Definition n_RecursionError : list N := [82;101;99;117;114;115;105;111;110;69;114;114;111;114]%N.
Definition n_AssertionError : list N := [65;115;115;101;114;116;105;111;110;69;114;114;111;114]%N.
Definition n_KeyError : list N := [75;101;121;69;114;114;111;114]%N.
Definition n_IndexError : list N := [73;110;100;101;120;69;114;114;111;114]%N.
Definition n_UnicodeDecodeError : list N := [85;110;105;99;111;100;101;68;101;99;111;100;101;69;114;114;111;114]%N.
Definition n_Exception : list N := [69;120;99;101;112;116;105;111;110]%N.
Definition n_BaseException : list N := [66;97;115;101;69;120;99;101;112;116;105;111;110]%N.
Definition n_LookupError : list N := [76;111;111;107;117;112;69;114;114;111;114]%N.
Definition n_NoMatch : list N := [78;111;77;97;116;99;104]%N.
Definition n_TextXError : list N := [84;101;120;116;88;69;114;114;111;114]%N.
Definition n_TextXSyntaxError : list N := [84;101;120;116;88;83;121;110;116;97;120;69;114;114;111;114]%N.
Definition n_TextXSemanticError : list N := [84;101;120;116;88;83;101;109;97;110;116;105;99;69;114;114;111;114]%N.
Definition n_TextXRegistrationError : list N :=
  [84;101;120;116;88;82;101;103;105;115;116;114;97;116;105;111;110;69;114;114;111;114]%N.

(* the KeyError that TextXMetaModel.__getitem__ raises itself *)
Definition exc_KeyError : exc :=
  {| x_name := n_KeyError; x_mro := [n_KeyError; n_LookupError; n_Exception; n_BaseException] |}.

(* One `except T1, T2 ... :` clause as the translator sees it: the class names it catches and what its body
   does.  ASwallow: the body neither raises nor re-raises (execution continues after the try).
   ARaise body c: the body raises TextX class c — unless `body = Some n`: an operation of the body
   raises n first (e.g. subscripting a Terminal). *)
Inductive action := ASwallow | ARaise (body : option (list N)) (c : txclass).
Record clause := { cl_types : list (list N); cl_action : action }.

Definition catches (cl : clause) (e : exc) : bool := existsb (fun t => mem_str t (x_mro e)) (cl_types cl).

Inductive dres := DSwallowed | DOut (o : outcome).

(* what a try statement with these except clauses does with exception e raised in its body *)
Fixpoint dispatch (cls : list clause) (e : exc) (w : why) : dres :=
  match cls with
  | [] => DOut (Crash (x_name e))
  | cl :: rest =>
      if catches cl e then
        match cl_action cl with
        | ASwallow => DSwallowed
        | ARaise None c => DOut (TxErr c w)
        | ARaise (Some n) _ => DOut (Crash n)
        end
      else dispatch rest e w
  end.

Definition action_safe (a : action) : bool :=
  match a with ASwallow => true | ARaise None _ => true | ARaise (Some _) _ => false end.

(* every exception that has class T in its MRO ends in a safe clause *)
Fixpoint handles (cls : list clause) (T : list N) : bool :=
  match cls with
  | [] => false
  | cl :: rest => action_safe (cl_action cl) && (mem_str T (cl_types cl) || handles rest T)
  end.

(* Facts about textx/lang.py and textx/metamodel.py, regenerated from the source on every run. *)
Record cfg := {
  c_params : list (list N);          (* names accepted by visit_rule_params *)
  c_param_cls : txclass;             (* raised for any other name *)
  c_split_cls : txclass;             (* raised for split without / with empty string *)
  c_ws_guard : option txclass;       (* Some c: a non-string ws value raises c before `"\\" in value` *)
  c_re_clauses : list clause;        (* visit_re_match: the except clauses around regex.compile() *)
  c_str_clauses : list clause;       (* visit_str_match: ... around the slicing and decode_escapes *)
  c_nomatch_clauses : list clause;   (* language_from_str: ... around parser.parse *)
  c_keyerror_clauses : list clause;  (* _resolve_cls: ... around metamodel[cls_name] *)
  c_contains_clauses : list clause;  (* TextXMetaModel.__contains__: ... around self[name] ([] = no try at all) *)
  c_ugroup_guard : bool;             (* visit_repeatable_expr: `#` on a RuleCrossRef does not read expr.nodes *)
  c_alias_guard : option txclass;    (* _resolve_rule: Some c: a rule found in its own alias chain raises c *)
  c_mmm_getitem : bool;              (* TextXMetaMetaModel defines __getitem__ *)
  c_ruletype_by_class : bool;        (* _determine_rule_type takes the class of an alias target from rule._tx_class
                                        (false: looks its rule_name up in the meta-model, outside any try) *)
  c_boolmany_check : option txclass; (* visit_textx_rule: a `?=` attribute with multiplicity many raises this *)
  c_user_redef_cls : txclass;        (* visit_rule_name: a user class for a rule name that is defined twice *)
  c_user_unused_cls : txclass;       (* validate_user_classes: a user class no rule uses *)
  c_base_names : list (list N)       (* classes of the __base__ namespace *)
}.

Definition is_some {A} (o : option A) : bool := match o with Some _ => true | None => false end.

(* Every crash source modelled is guarded in this source: each handler catches the exception class its `try`
   body is assumed to raise (see oracle_wf in Model/Front.v) and ends in a TextXError. *)
Definition cfg_safe (c : cfg) : bool :=
  is_some (c_ws_guard c)
  && handles (c_re_clauses c) n_Exception
  && handles (c_str_clauses c) n_UnicodeDecodeError && handles (c_str_clauses c) n_IndexError
  && handles (c_nomatch_clauses c) n_NoMatch
  && handles (c_keyerror_clauses c) n_KeyError
  && handles (c_contains_clauses c) n_KeyError
  && c_ugroup_guard c && is_some (c_alias_guard c) && c_mmm_getitem c && c_ruletype_by_class c.

(* The code as pinned before the C23 repairs (used by the refutation witnesses). *)
Definition pinned_cfg : cfg := {|
  c_params := [[115;107;105;112;119;115]; [119;115]; [115;112;108;105;116]]%N;
  c_param_cls := CSyntax; c_split_cls := CPlain; c_ws_guard := None;
  c_re_clauses := [{| cl_types := [n_Exception]; cl_action := ARaise (Some n_TypeError) CSyntax |}];
  c_str_clauses := [{| cl_types := [n_IndexError]; cl_action := ASwallow |}];
  c_nomatch_clauses := [{| cl_types := [n_NoMatch]; cl_action := ARaise None CSyntax |}];
  c_keyerror_clauses := [{| cl_types := [n_KeyError]; cl_action := ARaise None CSemantic |}];
  c_contains_clauses := [{| cl_types := [n_KeyError]; cl_action := ASwallow |}];
  c_ugroup_guard := false; c_alias_guard := None; c_mmm_getitem := false;
  c_ruletype_by_class := false; c_boolmany_check := None;
  c_user_redef_cls := CSemantic; c_user_unused_cls := CSemantic;
  c_base_names := [[73;68]; [83;84;82;73;78;71]; [66;79;79;76]; [73;78;84]; [70;76;79;65;84];
                   [83;84;82;73;67;84;70;76;79;65;84]; [78;85;77;66;69;82]; [66;65;83;69;84;89;80;69];
                   [79;66;74;69;67;84]]%N |}.
