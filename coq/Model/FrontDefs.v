(* C23 — types shared by the generated source facts (Gen/SrcFront.v) and the front-end model. *)
From TxV Require Import Core.Base.

(* Python exception types that are NOT TextXError and that the modelled code can raise. *)
Inductive crash := KType | KAttribute | KRecursion | KUnicode | KAssertion | KKey | KRe | KNoMatch.

(* TextXError classes. *)
Inductive txclass := CSyntax | CSemantic | CPlain | CRegistration.

(* Which check fired (compared with the implementation through its message). *)
Inductive why :=
  WParse | WParam | WWsParam | WSplit | WRegex | WEscape | WOptMods | WAsgMods
| WMultiBool | WPrimRef | WBoolRep | WBoolMany | WRuleRef | WClsRef | WRegistration.

Inductive outcome := Ok | TxErr (c : txclass) (w : why) | Crash (k : crash).

(* A try/except as the translator sees it: does it catch the exception in question, is the
   handler body free of operations that raise on their own, and which class does it raise. *)
Record handler := { h_catches : bool; h_body_safe : bool; h_raises : txclass }.

(* Facts about textx/lang.py and textx/metamodel.py, regenerated from the source on every run. *)
Record cfg := {
  c_params : list (list N);          (* names accepted by visit_rule_params *)
  c_param_cls : txclass;             (* raised for any other name *)
  c_split_cls : txclass;             (* raised for split without / with empty string *)
  c_ws_guard : option txclass;       (* Some c: a non-string ws value raises c before `"\\" in value` *)
  c_re_handler : handler;            (* visit_re_match: except around regex.compile() *)
  c_str_handler : handler;           (* visit_str_match: except UnicodeDecodeError around decode_escapes *)
  c_nomatch_handler : handler;       (* language_from_str: except NoMatch around parser.parse *)
  c_keyerror_handler : handler;      (* _resolve_cls: except KeyError around metamodel[cls_name] *)
  c_ugroup_guard : bool;             (* visit_repeatable_expr: `#` on a RuleCrossRef does not read expr.nodes *)
  c_alias_guard : option txclass;    (* _resolve_rule: Some c: a rule found in its own alias chain raises c *)
  c_mmm_getitem : bool;              (* TextXMetaMetaModel defines __getitem__ *)
  c_contains_catches : bool;         (* TextXMetaModel.__contains__ = try self[name] except KeyError *)
  c_ruletype_by_class : bool;        (* _determine_rule_type takes the class of an alias target from rule._tx_class
                                        (false: looks its rule_name up in the meta-model, outside any try) *)
  c_boolmany_check : option txclass; (* visit_textx_rule: a `?=` attribute with multiplicity many raises this *)
  c_base_names : list (list N)       (* classes of the __base__ namespace *)
}.

Definition handler_ok (h : handler) : bool := h_catches h && h_body_safe h.

Definition is_some {A} (o : option A) : bool := match o with Some _ => true | None => false end.

(* Every crash source modelled is guarded in this source. *)
Definition cfg_safe (c : cfg) : bool :=
  is_some (c_ws_guard c) && handler_ok (c_re_handler c) && handler_ok (c_str_handler c)
  && handler_ok (c_nomatch_handler c) && handler_ok (c_keyerror_handler c)
  && c_ugroup_guard c && is_some (c_alias_guard c) && c_mmm_getitem c
  && c_contains_catches c && c_ruletype_by_class c.

(* The code as pinned before the C23 repairs (used by the refutation witnesses). *)
Definition pinned_cfg : cfg := {|
  c_params := [[115;107;105;112;119;115]; [119;115]; [115;112;108;105;116]]%N;
  c_param_cls := CSyntax; c_split_cls := CPlain; c_ws_guard := None;
  c_re_handler := {| h_catches := true; h_body_safe := false; h_raises := CSyntax |};
  c_str_handler := {| h_catches := false; h_body_safe := true; h_raises := CSyntax |};
  c_nomatch_handler := {| h_catches := true; h_body_safe := true; h_raises := CSyntax |};
  c_keyerror_handler := {| h_catches := true; h_body_safe := true; h_raises := CSemantic |};
  c_ugroup_guard := false; c_alias_guard := None; c_mmm_getitem := false;
  c_contains_catches := true; c_ruletype_by_class := false; c_boolmany_check := None;
  c_base_names := [[73;68]; [83;84;82;73;78;71]; [66;79;79;76]; [73;78;84]; [70;76;79;65;84];
                   [83;84;82;73;67;84;70;76;79;65;84]; [78;85;77;66;69;82]; [66;65;83;69;84;89;80;69];
                   [79;66;74;69;67;84]]%N |}.
