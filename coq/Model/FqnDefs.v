(* Data types shared by the generated Gen/SrcFqn.v and the FQN scope-provider model (C10).
   A model is an object table; object ids are positions in the table.  Every object lists
   its instance attributes in `__dict__` order (as the provider iterates them). *)
From TxV Require Import Core.Base.

Inductive aval :=
| VPrim                      (* a value without a `name` attribute (str, int, bool, None of a base type ...) *)
| VOne (o : option nat)      (* a single object reference or None *)
| VMany (l : list nat).      (* a list of objects *)

Record attr := {
  a_name : list N;           (* the key in obj.__dict__ *)
  a_decl : bool;             (* the key is in type(obj)._tx_attrs *)
  a_cont : bool;             (* _tx_attrs[key].cont (meaningful when a_decl) *)
  a_call : bool;             (* callable(getattr(obj, key)) *)
  a_val  : aval }.

Record obj := {
  o_cls   : nat;             (* class id *)
  o_name  : option (list N); (* Some n when hasattr(obj, "name") and obj.name is the text n *)
  o_attrs : list attr }.

(* ImportURI.__call__ (FQNImportURI, FQNGlobalRepo): where the wrapped provider is started *)
Inductive phase := POwn | PLocal | PBuiltin.
