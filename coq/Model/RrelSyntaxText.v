(* RREL at the level of characters, instantiated by the facts generated from the source
   (Gen/SrcRrelSyntax.v, tools/translate/rrel_syntax_tr.py):

   print_src   str(expr): the object graph walk that Python's str()/__repr__ dispatch performs,
               every node printed by the translated __repr__ body of its class;
   lex_rx      the terminals of the grammar tried at a position after Arpeggio's whitespace
               skipping: the translated regexes (flags prefix, rrel_id, rrel_dots, string_value)
               matched by the backtracking semantics of Model/Rx.v, and the string terminals;
   parse_text  lex_rx followed by the PEG-ordered token parser of Model/RrelSyntax.v. *)
From TxV Require Import Core.Base Model.Rx Model.RrelSyntaxLib Gen.SrcRrelSyntax Model.RrelSyntax.

(* ------------------------------------------------------------ printing *)
Definition head_is_dots (p : path) : bool :=
  match p with
  | P1 (EDots _) => true
  | PCons (EDots _) _ => true
  | _ => false
  end.

(* ps_elem e = str(e);  ps_pstrs p = [str(x) for x in p.path_elements];
   ps_sstrs s = [str(p) for p in s.paths] *)
Fixpoint ps_elem (e : elem) : list N :=
  match e with
  | EParent t => repr_RRELParent t
  | ENav n c f => repr_RRELNavigation n c f
  | EDots n => repr_RRELDots n
  | EBr s => repr_RRELBrackets (repr_RRELSequence (ps_sstrs s))
  | EStar s => repr_RRELZeroOrMore (repr_RRELBrackets (repr_RRELSequence (ps_sstrs s)))
  end
with ps_pstrs (p : path) : list (list N) :=
  match p with
  | P1 e => [ps_elem e]
  | PCons e p' => ps_elem e :: ps_pstrs p'
  end
with ps_sstrs (s : seq) : list (list N) :=
  match s with
  | S1 p => [repr_RRELPath (head_is_dots p) (ps_pstrs p)]
  | SCons p s' => repr_RRELPath (head_is_dots p) (ps_pstrs p) :: ps_sstrs s'
  end.

Definition ps_path (p : path) : list N := repr_RRELPath (head_is_dots p) (ps_pstrs p).
Definition ps_seq (s : seq) : list N := repr_RRELSequence (ps_sstrs s).
Definition print_src (e : expr) : list N := repr_RRELExpression (eflags e) (ps_seq (eseq e)).

(* ------------------------------------------------------------ lexing with the source's terminals *)
Section Lexer.
Variable u : N -> N.           (* classification of non-ASCII code points (\w, \d) *)

Definition take_match (s s2 : list N) : list N := firstn (length s - length s2) s.

Definition ws_char (c : N) : bool := existsb (N.eqb c) g_ws.

Definition punct (c : N) : option tok :=
  if str_eqb [c] g_comma then Some TComma
  else if str_eqb [c] g_lparen then Some TLP
  else if str_eqb [c] g_rparen then Some TRP
  else if str_eqb [c] g_star then Some TStar
  else if str_eqb [c] g_tilde then Some TTilde
  else if str_eqb [c] g_caret then Some TCaret
  else None.

(* the terminal found at (pre, s) (s does not start with whitespace) and the state after it.
   The terminals start with different characters, so the order of the attempts is immaterial;
   flags: children[0][1:-1]; dots: len(node.value); string_value: node.value[1:-1]. *)
Definition first_tok (pre s : list N) : option (tok * (list N * list N)) :=
  let E := rrel_env u in
  match rx_first E rx_rrel_flags (pre, s) with
  | Some st => Some (TFlags (strip_ends (take_match s (snd st))), st)
  | None =>
  match rx_first E rx_rrel_id (pre, s) with
  | Some st => Some (TId (take_match s (snd st)), st)
  | None =>
  match rx_first E rx_rrel_dots (pre, s) with
  | Some st => Some (TDots (length (take_match s (snd st))), st)
  | None =>
  match rx_first E rx_string_value_0 (pre, s) with
  | Some st => let m := take_match s (snd st) in Some (TStr (strip_ends m) (hd 0%N m), st)
  | None =>
  match rx_first E rx_string_value_1 (pre, s) with
  | Some st => let m := take_match s (snd st) in Some (TStr (strip_ends m) (hd 0%N m), st)
  | None =>
  match s with
  | c :: s' => option_map (fun t => (t, (c :: pre, s'))) (punct c)
  | [] => None
  end end end end end end.

Fixpoint lex_rx (fuel : nat) (pre s : list N) : option (list tok) :=
  match fuel with
  | O => None
  | S f =>
      match s with
      | [] => Some []
      | c :: s' =>
          if ws_char c then lex_rx f (c :: pre) s'
          else match first_tok pre s with
               | Some (t, (pre', s2)) => option_map (cons t) (lex_rx f pre' s2)
               | None => None
               end
      end
  end.

Definition lex_text (s : list N) : option (list tok) := lex_rx (S (length s)) [] s.

Definition parse_text (s : list N) : option expr :=
  match lex_text s with
  | Some ts => parse_toks ts
  | None => None
  end.
End Lexer.

(* ------------------------------------------------------------ what the grammar can express
   (decidable side conditions of the round-trip theorems; the harness evaluates them too) *)
(* the text f can be written between quotes q as a string_value that reads back as f whatever
   follows: every q in f is preceded by a backslash and f does not end in a backslash that would
   pair with the closing quote *)
Fixpoint str_ok (q : N) (f : list N) : bool :=
  match f with
  | [] => true
  | c :: f' =>
      if N.eqb c q then false
      else if N.eqb c c_bslash then
        match f' with
        | [] => false
        | c2 :: f'' => if N.eqb c2 q then str_ok q f'' else str_ok q f'
        end
      else str_ok q f'
  end.

(* f can be written as a string_value at all (in single or in double quotes) *)
Definition expressible (f : list N) : bool := (str_ok c_squote f || str_ok c_dquote f)%bool.

(* f ends in a backslash *)
Fixpoint ends_bs (f : list N) : bool :=
  match f with
  | [] => false
  | c :: f' => match f' with [] => N.eqb c c_bslash | _ :: _ => ends_bs f' end
  end.

(* what string_value's regex can have matched between quotes q: no unescaped q *)
Definition fx_lexed (f : list N) : bool := (negb (unesc c_squote f) || negb (unesc c_dquote f))%bool.

Definition nonzero (n : nat) : bool := negb (Nat.eqb n 0).

(* a tree all of whose names / fixed names / dots counts satisfy the given tests *)
Section TreeTests.
Variables (pid pfx : list N -> bool) (pd : nat -> bool).
Fixpoint lx_elem (e : elem) : bool :=
  match e with
  | EParent t => pid t
  | ENav n _ f => (pid n && match f with Some fx => pfx fx | None => true end)%bool
  | EDots n => pd n
  | EBr s => lx_seq s
  | EStar s => lx_seq s
  end
with lx_path (p : path) : bool :=
  match p with
  | P1 e => lx_elem e
  | PCons e p' => (lx_elem e && lx_path p')%bool
  end
with lx_seq (s : seq) : bool :=
  match s with
  | S1 p => lx_path p
  | SCons p s' => (lx_path p && lx_seq s')%bool
  end.
End TreeTests.

Section Hyp.
Variable u : N -> N.           (* classification of non-ASCII code points *)

(* an identifier as rrel_id's regex [^\d\W]\w*\b matches it *)
Definition idstart (c : N) : bool := (Rx.is_word (rrel_env u) c && negb (Rx.is_digit (rrel_env u) c))%bool.
Definition ident (s : list N) : bool :=
  match s with
  | c :: r => (idstart c && forallb (Rx.is_word (rrel_env u)) r)%bool
  | [] => false
  end.

Definition tok_ok (t : tok) : bool :=
  match t with
  | TId s => ident s
  | TStr s q => ((N.eqb q c_squote || N.eqb q c_dquote) && str_ok q s)%bool
  | TDots n => nonzero n
  | TFlags s => (struth s && forallb is_flagch s)%bool
  | _ => true
  end.

(* what the lexer can return *)
Definition tok_lexed (t : tok) : bool :=
  match t with
  | TId s => ident s
  | TStr s q => ((N.eqb q c_squote || N.eqb q c_dquote) && negb (unesc q s))%bool
  | TDots n => nonzero n
  | TFlags s => (struth s && forallb is_flagch s)%bool
  | _ => true
  end.

(* names are identifiers, dots counts positive, flags over {m,p}, fixed names writable as a
   string_value *)
Definition lexable (e : expr) : bool :=
  (lx_seq ident expressible nonzero (eseq e) && forallb is_flagch (eflags e))%bool.

(* what the parser can return *)
Definition parsed_ok (e : expr) : bool :=
  (lx_seq ident fx_lexed nonzero (eseq e) && forallb is_flagch (eflags e))%bool.
End Hyp.

(* no fixed name ends in a backslash (the exclusion of the known finding trailing-backslash) *)
Definition no_trailing_bs (e : expr) : bool :=
  lx_seq (fun _ => true) (fun f => negb (ends_bs f)) (fun _ => true) (eseq e).

(* tokens whose texts would run together: identifier after identifier, dots after dots *)
Definition cls (t : tok) : nat := match t with TId _ => 1 | TDots _ => 2 | _ => 0 end.
Definition clash (p c : nat) : bool := (Nat.eqb p c && negb (Nat.eqb c 0))%bool.
Fixpoint adj_from (prev : nat) (ts : list tok) : bool :=
  match ts with
  | [] => true
  | t :: r => (negb (clash prev (cls t)) && adj_from (cls t) r)%bool
  end.
Fixpoint end_cls (prev : nat) (ts : list tok) : nat :=
  match ts with
  | [] => prev
  | t :: r => end_cls (cls t) r
  end.
Definition toks_ok (u : N -> N) (ts : list tok) : bool := (forallb (tok_ok u) ts && adj_from 0 ts)%bool.
