(* C16 — the state that survives a model load, as a state machine.

   What persists between operations in a textX process (read from textx/lang.py,
   textx/model.py, textx/metamodel.py, arpeggio/__init__.py):

   * lang.textX_parsers: the cache of textX-grammar parsers, keyed by the debug flag; a cached
     parser keeps the `memoization` flag of the metamodel that created it and its own memo caches;
   * the module-level base-type rule objects (ID, INT, ..., NUMBER, BASETYPE) shared by the parser
     models of all metamodels: their `_result_cache` (memoization) and `_tx_class` (re-pointed to the
     classes of every newly initialised metamodel);
   * per metamodel: the blueprint parser (`_parser_blueprint`, cloned for every load), the memo
     caches of its own rule objects (shared by all clones), the global model repository;
   * per user class: the instrumentation counter `_tx_instrumented` (with the swapped attribute
     methods), the per-object attribute storage `_tx_obj_attrs`, and the class-level `_tx_*` data
     owned by the metamodel that initialised the class last.

   Parsing, model construction, reference resolution and processors are NOT modelled: they are
   the oracle functions `create_out` / `load_out`, which may depend in an ARBITRARY way on the
   `view` of the persistent state that the code reads.  The model transcribes the control flow
   that reads and writes the persistent state; the theorems show that every reachable state
   presents the canonical view, hence results are functions of configuration and input only.

   The behaviours that the source decides (does the load clone the blueprint, does `parse` clear
   the caches in `finally`, which paths restore the user classes, what the parser cache is keyed
   by) are the `facts` record, regenerated from the source on every run (Gen/SrcHistory.v). *)
From TxV Require Import Core.Base.

Record facts := {
  f_gp_key_memo : bool;          (* textX_parsers key includes the memoization flag (now: debug only) *)
  f_clear_in_finally : bool;     (* arpeggio Parser.parse clears memo caches in `finally` when memoizing *)
  f_loads_use_clone : bool;      (* model_from_str / internal_model_from_file parse with blueprint.clone() *)
  f_clone_resets : bool;         (* clone() gives the clone fresh _inst_stack/_instances/_crossrefs/comment_positions *)
  f_except_restores : bool;      (* get_model_from_str: `except: self._restore_user_attr_methods(); raise` *)
  f_end_restores : bool;         (* _end_model_construction restores the user classes *)
  f_restore_on_primitive : bool; (* get_model_from_str restores when the model is an int / float / str / bool *)
  f_restore_on_immutable : bool; (* ... and when it is any other value that cannot carry _tx_parser (Decimal, tuple, ...) *)
  f_restore_guarded : bool       (* a parser restores the user classes only if it has replaced them (and only once) *)
}.

Definition good (f : facts) : bool :=
  f_clear_in_finally f && f_loads_use_clone f && f_clone_resets f && f_except_restores f
  && f_end_restores f && f_restore_on_primitive f && f_restore_on_immutable f && f_restore_guarded f.

Record cfg := {
  c_gram : nat;            (* grammar *)
  c_memo : bool;           (* memoization= *)
  c_debug : bool;          (* debug= *)
  c_base : bool;           (* the parser model reaches the shared non-terminal base rules NUMBER / BASETYPE *)
  c_classes : list nat;    (* user classes (process-wide class objects) *)
  c_repo : bool;           (* global_repository=True *)
  c_root_user : bool;      (* the root rule has a user class (the model object is a user-class instance) *)
  c_opts : nat             (* everything else: processors, providers, flags (opaque to the state machine) *)
}.

Record gparser := { gp_memo : bool; gp_cache : list nat }.
Record ucls := { u_instr : nat; u_store : nat; u_owner : nat; u_gram : option nat }.
Record mm := { m_cfg : cfg; m_ser : nat; m_bp_dirty : bool; m_cache : list nat; m_repo : list nat;
               m_stale : bool (* the repository holds a half-built model of a failed load *) }.

Record pst := {
  gparsers : bool -> bool -> option gparser;   (* key: debug, (memo if f_gp_key_memo else false) *)
  gp_keys : list (bool * bool);                (* insertion order of the keys (for display) *)
  base_cache : list nat;
  base_owner : nat;                            (* serial of the metamodel the shared rules' _tx_class belong to *)
  next_ser : nat;
  slots : nat -> option mm;                    (* the pool of live metamodels *)
  classes : nat -> ucls
}.

Definition init : pst := {|
  gparsers := fun _ _ => None; gp_keys := []; base_cache := []; base_owner := 0; next_ser := 1;
  slots := fun _ => None;
  classes := fun _ => {| u_instr := 0; u_store := 0; u_owner := 0; u_gram := None |} |}.

(* what a grammar parse reads *)
Record gview := { gv_memo : bool; gv_cache : list nat }.
(* what a model load reads *)
Record view := {
  v_memo : bool;                 (* the parsing parser's memoization flag *)
  v_bp_dirty : bool;             (* the parser it starts from carries state of an earlier parse *)
  v_caches : list nat;           (* entries in the memo caches its parser model reaches *)
  v_instr : list nat;            (* instrumentation counters of the metamodel's user classes *)
  v_cgram : list (option nat);   (* grammar of the metamodel that owns each user class's _tx_ data *)
  v_repo : list nat;             (* files cached in the metamodel's global repository *)
  v_stale : bool                 (* ... one of them half-built, left behind by a failed load *)
}.

Inductive ckind := CSyntax | CLate | COk.
Record cres := { k_kind : ckind; k_dump : nat }.

Inductive lkind :=
| LSyntax        (* the parse fails: nothing was instrumented yet *)
| LImportSyntax  (* the main model is built and instrumented; an imported file fails to parse (nested load) *)
| LBeforeEnd     (* failure after instrumentation, before _end_model_construction (unknown reference, ...) *)
| LAfterEnd      (* failure after _end_model_construction (user __init__, object processor) *)
| LModelProc     (* get_model_from_str returned; a model processor raised *)
| LOkPrim        (* success, the model is a primitive Python value (int, float, str, bool) *)
| LOkImm         (* success, the model is another value that cannot carry attributes (e.g. a match rule converted
                    by an object processor to Decimal / tuple / frozenset / list) *)
| LOk.           (* success *)
Record lres := { l_kind : lkind; l_dump : nat; l_leak : list nat (* storage entries left, per user class *); l_files : list nat }.

(* when, inside a load, user code (a scope provider, an object processor, a model processor) starts another load *)
Inductive phase :=
| PhProvider     (* during reference resolution: the outer load still holds the instrumentation of its user classes *)
| PhAfter.       (* from an object / model processor: the outer load has restored its user classes *)
Inductive op := New (slot : nat) (c : cfg) | Load (slot : nat) (input : nat)
              | Nested (slot input : nat) (ph : phase) (slot' input' : nat).
Inductive out := OCreate (r : cres) | OLoad (r : lres) | ONoSlot | ONest (r : lres) (inner : out).

Definition upd {A} (f : nat -> A) (k : nat) (v : A) : nat -> A := fun k' => if Nat.eqb k' k then v else f k'.
Definition upd2 {A} (f : bool -> bool -> A) (a b : bool) (v : A) : bool -> bool -> A :=
  fun a' b' => if (Bool.eqb a' a && Bool.eqb b' b)%bool then v else f a' b'.
Definition mem_nat (x : nat) (l : list nat) : bool := existsb (Nat.eqb x) l.
Definition union (a b : list nat) : list nat := a ++ filter (fun x => negb (mem_nat x a)) b.
Definition diff (a b : list nat) : list nat := filter (fun x => negb (mem_nat x b)) a.

Definition map_classes (ids : list nat) (g : ucls -> ucls) (cl : nat -> ucls) : nat -> ucls :=
  fold_left (fun acc id => upd acc id (g (acc id))) ids cl.

Definition leak_classes (ids ns : list nat) (cl : nat -> ucls) : nat -> ucls :=
  fold_left (fun acc p => upd acc (fst p) (let u := acc (fst p) in
     {| u_instr := u_instr u; u_store := u_store u + snd p; u_owner := u_owner u; u_gram := u_gram u |})) (combine ids ns) cl.

Definition replace_u (u : ucls) : ucls :=
  {| u_instr := S (u_instr u); u_store := u_store u; u_owner := u_owner u; u_gram := u_gram u |}.
Definition restore_u (u : ucls) : ucls :=
  {| u_instr := Nat.pred (u_instr u); u_store := u_store u; u_owner := u_owner u; u_gram := u_gram u |}.
Definition reown_u (ser g : nat) (u : ucls) : ucls :=
  {| u_instr := u_instr u; u_store := 0; u_owner := ser; u_gram := Some g |}.
Definition when (b : bool) (g : ucls -> ucls) : ucls -> ucls := if b then g else (fun u => u).

Section Machine.
  Variable F : facts.
  Variable create_out : cfg -> gview -> cres.
  Variable load_out : cfg -> nat -> view -> lres.

  Definition gp_km (c : cfg) : bool := if f_gp_key_memo F then c_memo c else false.

  (* memo caches after a parse by a parser whose flag is `memo`, having parsed `tok` *)
  Definition after_parse (memo : bool) (tok : nat) (cache : list nat) : list nat :=
    if memo then (if f_clear_in_finally F then [] else tok :: cache) else cache.

  Definition step_new (st : pst) (s : nat) (c : cfg) : pst * out :=
    let kd := c_debug c in
    let km := gp_km c in
    (* language_from_str: look the grammar parser up, or build it with this metamodel's flag *)
    let hit := gparsers st kd km in
    let gp := match hit with Some gp => gp | None => {| gp_memo := c_memo c; gp_cache := [] |} end in
    let keys := match hit with Some _ => gp_keys st | None => gp_keys st ++ [(kd, km)] end in
    let ser := next_ser st in        (* TextXMetaModel.__init__ ran: base rules point to this metamodel *)
    let r := create_out c {| gv_memo := gp_memo gp; gv_cache := gp_cache gp |} in
    let gp' := {| gp_memo := gp_memo gp; gp_cache := after_parse (gp_memo gp) (c_gram c) (gp_cache gp) |} in
    let cls := match k_kind r with
               | CSyntax => classes st
               | _ => map_classes (c_classes c) (reown_u ser (c_gram c)) (classes st)   (* _init_class on user classes *)
               end in
    let sl := match k_kind r with
              | COk => upd (slots st) s (Some {| m_cfg := c; m_ser := ser; m_bp_dirty := false; m_cache := []; m_repo := []; m_stale := false |})
              | _ => slots st
              end in
    ({| gparsers := upd2 (gparsers st) kd km (Some gp'); gp_keys := keys; base_cache := base_cache st;
        base_owner := ser; next_ser := S ser; slots := sl; classes := cls |}, OCreate r).

  Definition view_of (st : pst) (m : mm) : view :=
    let c := m_cfg m in
    {| v_memo := c_memo c; v_bp_dirty := m_bp_dirty m;
       v_caches := m_cache m ++ (if c_base c then base_cache st else []);
       v_instr := map (fun id => u_instr (classes st id)) (c_classes c);
       v_cgram := map (fun id => u_gram (classes st id)) (c_classes c);
       v_repo := if c_repo c then m_repo m else [];
       v_stale := m_stale m |}.

  (* what the load does to each user class of the metamodel, per outcome *)
  Definition class_effect (r : lres) : ucls -> ucls :=
    let ex := when (f_except_restores F) restore_u in
    let en := when (f_end_restores F) restore_u in
    let pr := when (f_restore_on_primitive F) restore_u in
    let im := when (f_restore_on_immutable F) restore_u in
    let unguarded := when (negb (f_restore_guarded F)) in
    match l_kind r with
    | LSyntax => unguarded ex                                        (* except path, nothing was replaced *)
    | LImportSyntax => fun u => ex (unguarded ex (replace_u u))      (* the nested load's except path runs first *)
    | LBeforeEnd => fun u => ex (replace_u u)
    | LAfterEnd => fun u => unguarded ex (en (replace_u u))          (* second restore by the same parser *)
    | LModelProc => fun u => en (replace_u u)
    | LOkPrim => fun u => pr (replace_u u)
    | LOkImm => fun u => im (replace_u u)
    | LOk => fun u => en (replace_u u)
    end.

  Definition repo_effect (r : lres) (repo : list nat) : list nat :=
    match l_kind r with
    | LOk | LOkPrim | LOkImm | LModelProc => union repo (l_files r)
    | _ => repo     (* a failing load removes exactly the models it added (those still in construction);
                       models cached by earlier loads stay *)
    end.

  Definition step_load (st : pst) (s : nat) (i : nat) : pst * out :=
    match slots st s with
    | None => (st, ONoSlot)
    | Some m =>
      let c := m_cfg m in
      let r := load_out c i (view_of st m) in
      let m' := {| m_cfg := c; m_ser := m_ser m;
                   m_bp_dirty := m_bp_dirty m || negb (f_loads_use_clone F) || negb (f_clone_resets F);
                   m_cache := after_parse (c_memo c) i (m_cache m);
                   m_repo := if c_repo c then repo_effect r (m_repo m) else m_repo m;
                   (* an unguarded nested restore un-instruments the classes: the half-built user-class root is
                      no longer recognised as "in construction" and stays in the repository *)
                   m_stale := m_stale m || (match l_kind r with LImportSyntax => true | _ => false end
                                            && negb (f_restore_guarded F) && c_repo c && c_root_user c) |} in
      ({| gparsers := gparsers st; gp_keys := gp_keys st;
          base_cache := if c_base c then after_parse (c_memo c) i (base_cache st) else base_cache st;
          base_owner := base_owner st; next_ser := next_ser st;
          slots := upd (slots st) s (Some m');
          (* per-object storage the load did not pop (observed: failing loads leave their entries) *)
          classes := leak_classes (c_classes c) (l_leak r) (map_classes (c_classes c) (class_effect r) (classes st)) |}, OLoad r)
    end.

  (* --- a load started from inside a load.  The outer load is split where the user code runs. *)
  (* outer load up to the provider calls: parsed (memo caches written and cleared), user classes replaced *)
  Definition begin_load (st : pst) (s : nat) (m : mm) (i : nat) : pst :=
    let c := m_cfg m in
    let m' := {| m_cfg := c; m_ser := m_ser m;
                 m_bp_dirty := m_bp_dirty m || negb (f_loads_use_clone F) || negb (f_clone_resets F);
                 m_cache := after_parse (c_memo c) i (m_cache m); m_repo := m_repo m; m_stale := m_stale m |} in
    {| gparsers := gparsers st; gp_keys := gp_keys st;
       base_cache := if c_base c then after_parse (c_memo c) i (base_cache st) else base_cache st;
       base_owner := base_owner st; next_ser := next_ser st;
       slots := upd (slots st) s (Some m');
       classes := map_classes (c_classes c) replace_u (classes st) |}.

  (* the rest of the outer load: what class_effect does after the replacement *)
  Definition finish_effect (r : lres) : ucls -> ucls :=
    let ex := when (f_except_restores F) restore_u in
    let en := when (f_end_restores F) restore_u in
    let pr := when (f_restore_on_primitive F) restore_u in
    let im := when (f_restore_on_immutable F) restore_u in
    let unguarded := when (negb (f_restore_guarded F)) in
    match l_kind r with
    | LSyntax | LBeforeEnd => ex            (* (the parse succeeded: providers ran) *)
    | LImportSyntax => fun u => ex (unguarded ex u)
    | LAfterEnd => fun u => unguarded ex (en u)
    | LModelProc | LOk => en
    | LOkPrim => pr
    | LOkImm => im
    end.

  Definition finish_load (st : pst) (s : nat) (c : cfg) (r : lres) : pst :=
    {| gparsers := gparsers st; gp_keys := gp_keys st; base_cache := base_cache st; base_owner := base_owner st;
       next_ser := next_ser st;
       slots := match slots st s with
                | None => slots st
                | Some m => upd (slots st) s (Some {| m_cfg := m_cfg m; m_ser := m_ser m; m_bp_dirty := m_bp_dirty m; m_cache := m_cache m;
                                                     m_repo := if c_repo c then repo_effect r (m_repo m) else m_repo m;
                                                     m_stale := m_stale m |})
                end;
       classes := leak_classes (c_classes c) (l_leak r) (map_classes (c_classes c) (finish_effect r) (classes st)) |}.

  Definition step_nested (st : pst) (s i : nat) (ph : phase) (s' i' : nat) : pst * out :=
    match slots st s with
    | None => (st, ONoSlot)
    | Some m =>
      let c := m_cfg m in
      let r := load_out c i (view_of st m) in       (* i names the outer input together with the load it starts *)
      match ph with
      | PhAfter =>      (* as far as persistent state goes: the outer load, then the inner one *)
        let st1 := fst (step_load st s i) in
        let '(st2, o2) := step_load st1 s' i' in (st2, ONest r o2)
      | PhProvider =>
        let '(st2, o2) := step_load (begin_load st s m i) s' i' in
        (finish_load st2 s c r, ONest r o2)
      end
    end.

  Definition step (st : pst) (o : op) : pst * out :=
    match o with
    | New s c => step_new st s c
    | Load s i => step_load st s i
    | Nested s i ph s' i' => step_nested st s i ph s' i'
    end.

  Fixpoint run (st : pst) (ops : list op) : pst * list out :=
    match ops with
    | [] => (st, [])
    | o :: ops' => let '(st1, x) := step st o in let '(st2, xs) := run st1 ops' in (st2, x :: xs)
    end.

  Definition final (ops : list op) : pst := fst (run init ops).
  Definition result (st : pst) (o : op) : out := snd (step st o).

  (* the view a load of configuration c has on a fresh process state right after creating the metamodel *)
  Definition fresh_view (c : cfg) (repo : list nat) : view :=
    {| v_memo := c_memo c; v_bp_dirty := false; v_caches := [];
       v_instr := map (fun _ => 0) (c_classes c);
       v_cgram := map (fun _ => Some (c_gram c)) (c_classes c);
       v_repo := repo; v_stale := false |}.
  Definition fresh_gview (c : cfg) : gview := {| gv_memo := c_memo c; gv_cache := [] |}.
End Machine.
