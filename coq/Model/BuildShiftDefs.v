(* C22 - executable definitions for the model-level statements: position shift and position erasure on
   the values of Model/Build.v, and the decidable tree condition [fits]. No proofs. *)
From TxV Require Import Core.Base Model.PegSyntax Model.Peg Model.Build Model.PegWsDefs.

(* end positions: an object that ends exactly at the insertion point does not grow *)
Definition phie (k n e : nat) : nat := if Nat.leb e k then e else e + n.

Fixpoint shift_val (k n : nat) (v : value) : value :=
  match v with
  | VJoin r ps => VJoin r (map (shift_val k n) ps)
  | VConv r x => VConv r (shift_val k n x)
  | VObj cls p e attrs =>
    VObj cls (phi k n p) (phie k n e)
         ((fix go (l : list (list N * value)) : list (list N * value) :=
             match l with [] => [] | (a, x) :: l' => (a, shift_val k n x) :: go l' end) attrs)
  | VRef nm p cl => VRef (shift_val k n nm) (phi k n p) cl
  | VList l => VList (map (shift_val k n) l)
  | _ => v
  end.

(* positions erased: "equal apart from source positions" *)
Fixpoint erase_val (v : value) : value :=
  match v with
  | VJoin r ps => VJoin r (map erase_val ps)
  | VConv r x => VConv r (erase_val x)
  | VObj cls p e attrs =>
    VObj cls 0 0
         ((fix go (l : list (list N * value)) : list (list N * value) :=
             match l with [] => [] | (a, x) :: l' => (a, erase_val x) :: go l' end) attrs)
  | VRef nm p cl => VRef (erase_val nm) 0 cl
  | VList l => VList (map erase_val l)
  | _ => v
  end.

Definition map_bres {A B} (f : A -> B) (r : bres A) : bres B :=
  match r with BOk a => BOk (f a) | BErr e => BErr e end.

(* no terminal lies across the insertion point, no zero-length terminal sits exactly at it (its end would be
   ambiguous), and an empty NonTerminal (position 0 by convention) is allowed only when the insertion is not
   at position 0 *)
Fixpoint fits (k : nat) (t : tree) : bool :=
  match t with
  | T _ p len _ => (Nat.leb k p || Nat.leb (p + len) k) && negb (Nat.eqb len 0 && Nat.eqb p k)
  | NT _ kids => (match kids with [] => false | _ => true end || Nat.ltb 0 k) && forallb (fits k) kids
  end.

(* parse_tree_to_objgraph reads parser.parse_tree[0] only (the EOF terminal that follows is ignored) *)
Definition fits_res (k : nat) (r : res) : bool :=
  match r with RTree (NT _ (t :: _)) => fits k t | _ => true end.


(* table-level condition: no StrMatch with an empty text (so that the only zero-length terminals are EOF
   terminals, which sit at the end of the input) *)
Definition no_empty_lit (g : grammar) : bool :=
  forallb (fun nd => match n_kind nd with KStr [] _ => false | _ => true end) (g_nodes g).
