(* Executable model of the Arpeggio 2.x interpreter as driven by textX
   (transcribed from arpeggio/__init__.py: ParsingExpression.parse, Sequence/OrderedChoice/
   Optional/ZeroOrMore/OneOrMore/UnorderedGroup/And/Not/Empty._parse, Match.parse,
   Match._parse_comments, RegExMatch/StrMatch/EndOfFile._parse, Parser.ws/eolterm setters,
   Parser._nm_raise).  No proofs here.

   Parameters: the grammar table, the input, the terminal oracle, the memoization flag, fuel.
   Result: [out] = Ok (python value) state | Fail state | Abort reason.
   The NoMatch exception that propagates is always the parser's current [nm] object
   (every raise is [raise self.nm] or a re-raise; the only stored exception, UnorderedGroup's
   sep_exc, is re-raised inside the try block that swallows it), so the error position of a
   failed parse is the [nm] field of the final state. Only positions are modelled, not the
   list of expected rules. *)
From TxV Require Import Core.Base Model.PegSyntax.

(* ---------------------------------------------------------------- parse results *)
Inductive tree :=
| T  (nid : nat) (pos : nat) (len : nat) (sup : bool)   (* Terminal: rule node, position, length
                                                           of value, Terminal.suppress flag *)
| NT (nid : nat) (kids : list tree).                    (* NonTerminal of a root rule *)

Inductive res :=                 (* Python values returned by parse() *)
| RNone
| RTree (t : tree)
| RList (l : list res).

Definition truthy (r : res) : bool :=
  match r with
  | RNone => false
  | RTree (T _ _ _ _) => true
  | RTree (NT _ k) => match k with [] => false | _ => true end   (* NonTerminal is a list *)
  | RList l => match l with [] => false | _ => true end
  end.

Definition is_none (r : res) : bool := match r with RNone => true | _ => false end.

(* type(result) is list and result and result[0] is None *)
Definition head_is_none (r : res) : bool :=
  match r with RList (RNone :: _) => true | _ => false end.

(* arpeggio.flatten: nested lists are flattened, NonTerminals are kept.  A None inside a list
   cannot occur (lists only ever receive truthy values or come from Optional, whose [None]
   is turned into None by the caller); it is dropped here. *)
Fixpoint flatten (r : res) : list tree :=
  match r with
  | RNone => []
  | RTree t => [t]
  | RList l => (fix go (l : list res) : list tree :=
                  match l with [] => [] | x :: l' => flatten x ++ go l' end) l
  end.

Definition is_ptnode (r : res) : bool := match r with RTree _ => true | _ => false end.

(* ---------------------------------------------------------------- parser state *)
Inductive cres := CNoMatch | CRes (r : res).     (* NOMATCH_MARKER or a cached result *)

Record st := mkSt {
  pos     : nat;                  (* parser.position *)
  ws      : list N;               (* parser._ws (effective) *)
  real_ws : list N;               (* parser._real_ws *)
  skipws  : bool;
  eolterm : bool;                 (* parser._eolterm *)
  in_cmt  : bool;                 (* parser.in_parse_comments *)
  nm      : option nat;           (* position of parser.nm (None = no NoMatch yet) *)
  cpos    : list (nat * nat);     (* parser.comment_positions *)
  cache   : list ((nat * nat) * (cres * nat))   (* all _result_cache dicts: (node, pos) -> (result, new pos) *)
}.

Definition set_pos (p : nat) (s : st) : st :=
  mkSt p (ws s) (real_ws s) (skipws s) (eolterm s) (in_cmt s) (nm s) (cpos s) (cache s).
Definition set_skipws (b : bool) (s : st) : st :=
  mkSt (pos s) (ws s) (real_ws s) b (eolterm s) (in_cmt s) (nm s) (cpos s) (cache s).
Definition set_in_cmt (b : bool) (s : st) : st :=
  mkSt (pos s) (ws s) (real_ws s) (skipws s) (eolterm s) b (nm s) (cpos s) (cache s).
Definition set_nm (n : option nat) (s : st) : st :=
  mkSt (pos s) (ws s) (real_ws s) (skipws s) (eolterm s) (in_cmt s) n (cpos s) (cache s).
Definition set_cpos (c : list (nat * nat)) (s : st) : st :=
  mkSt (pos s) (ws s) (real_ws s) (skipws s) (eolterm s) (in_cmt s) (nm s) c (cache s).
Definition set_cache (c : list ((nat * nat) * (cres * nat))) (s : st) : st :=
  mkSt (pos s) (ws s) (real_ws s) (skipws s) (eolterm s) (in_cmt s) (nm s) (cpos s) c.

Definition strip_eol (w : list N) : list N :=
  filter (fun c => negb (N.eqb c 10 || N.eqb c 13)) w.

(* Parser.ws setter *)
Definition set_ws (w : list N) (s : st) : st :=
  mkSt (pos s) (if eolterm s then strip_eol w else w) w (skipws s) (eolterm s) (in_cmt s)
       (nm s) (cpos s) (cache s).
(* Parser.eolterm setter *)
Definition set_eolterm (b : bool) (s : st) : st :=
  mkSt (pos s) (if b then strip_eol (ws s) else real_ws s) (real_ws s) (skipws s) b (in_cmt s)
       (nm s) (cpos s) (cache s).

Definition nm_pos (s : st) : nat := match nm s with Some p => p | None => 0 end.

(* Parser._nm_raise, position bookkeeping only *)
Definition reg_fail (p : nat) (s : st) : st :=
  match nm s with
  | None => set_nm (Some p) s
  | Some q => if in_cmt s then s else if Nat.ltb q p then set_nm (Some p) s else s
  end.

Inductive out :=
| Ok (r : res) (s : st)
| Fail (s : st)                  (* NoMatch propagating; the exception is parser.nm *)
| Abort (why : nat).             (* 0 = out of fuel (non-termination / recursion limit),
                                    1 = Python-level crash of the interpreter (e.g. UnboundLocalError
                                        in an UnorderedGroup without elements, bad node id) *)

Definition nm_raise (p : nat) (s : st) : out := Fail (reg_fail p s).

(* dictionaries *)
Fixpoint lookup (k : nat) (m : list (nat * nat)) : option nat :=
  match m with
  | [] => None
  | (k', v) :: m' => if Nat.eqb k k' then Some v else lookup k m'
  end.
Fixpoint upd (k v : nat) (m : list (nat * nat)) : list (nat * nat) :=
  match m with
  | [] => [(k, v)]
  | (k', v') :: m' => if Nat.eqb k k' then (k, v) :: m' else (k', v') :: upd k v m'
  end.
Fixpoint clookup (n p : nat) (m : list ((nat * nat) * (cres * nat))) : option (cres * nat) :=
  match m with
  | [] => None
  | ((n', p'), v) :: m' => if (Nat.eqb n n' && Nat.eqb p p')%bool then Some v else clookup n p m'
  end.
Definition cput (n p : nat) (v : cres * nat) (s : st) : st := set_cache (((n, p), v) :: cache s) s.

Fixpoint remove_first (x : nat) (l : list nat) : list nat :=
  match l with
  | [] => []
  | y :: l' => if Nat.eqb x y then l' else y :: remove_first x l'
  end.

Section Interp.
Variable g : grammar.
Variable input : list N.
Variable orc : nat -> nat -> option nat.     (* oracle id -> position -> matched length *)
Variable memo : bool.

Notation parser := (nat -> bool -> st -> out) (only parsing).
(* a child parser: node id -> "parser.last_pexpression is an exact Sequence" -> state -> outcome *)

(* ---------------------------------------------------------------- whitespace, comments *)
Fixpoint skip_ws_from (w : list N) (l : list N) (p : nat) : nat :=
  match l with
  | c :: l' => if existsb (N.eqb c) w then skip_ws_from w l' (S p) else p
  | [] => p
  end.
Definition do_skip_ws (s : st) : st :=
  set_pos (skip_ws_from (ws s) (skipn (pos s) input) (pos s)) s.
Definition maybe_skip_ws (s : st) : st := if skipws s then do_skip_ws s else s.

(* Match._parse_comments: the while-True loop *)
Fixpoint cmt_loop (rec : parser) (cm : nat) (k : nat) (s : st) : out :=
  match k with
  | 0 => Abort 0
  | S k' =>
    match rec cm false s with
    | Ok _ s1 => cmt_loop rec cm k' (maybe_skip_ws s1)
    | Fail s1 => Ok RNone s1            (* except NoMatch: pass *)
    | Abort w => Abort w
    end
  end.

Definition parse_comments (rec : parser) (k : nat) (s : st) : out :=
  match g_comments g with
  | None => Ok RNone (set_in_cmt false (set_in_cmt true s))
  | Some cm =>
    match cmt_loop rec cm k (set_in_cmt true s) with
    | Ok _ s1 => Ok RNone (set_in_cmt false s1)
    | Fail s1 => Fail s1
    | Abort w => Abort w
    end
  end.

(* Match.parse up to the call of self._parse *)
Definition match_pre (rec : parser) (k : nat) (s : st) : out :=
  let s1 := maybe_skip_ws s in
  match (if skipws s1 then lookup (pos s1) (cpos s1) else None) with
  | Some p' => Ok RNone (set_pos p' s1)
  | None =>
    if in_cmt s1 then Ok RNone s1
    else
      match parse_comments rec k s1 with
      | Ok _ s2 => Ok RNone (set_cpos (upd (pos s1) (pos s2) (cpos s2)) s2)
      | o => o
      end
  end.

(* RegExMatch/StrMatch/EndOfFile._parse *)
Definition term_parse (nid : nat) (k : kind) (psq : bool) (s : st) : out :=
  let p := pos s in
  match k with
  | KStr t oid =>
    let ok := match oid with
              | None => is_prefix t (skipn p input)
              | Some o => match orc o p with Some _ => true | None => false end
              end in
    if ok then Ok (RTree (T nid p (length t) psq)) (set_pos (p + length t) s)
    else nm_raise p s
  | KRegex o =>
    match orc o p with
    | Some len => if Nat.eqb len 0 then Ok RNone s
                  else Ok (RTree (T nid p len false)) (set_pos (p + len) s)
    | None => nm_raise p s
    end
  | KEOF => if Nat.eqb (length input) p then Ok (RTree (T nid p 0 true)) s else nm_raise p s
  | _ => Abort 1
  end.

(* ---------------------------------------------------------------- loops over children *)
(* for e in nodes: r = e.parse(); if r: append(r)   -- stops at the first NoMatch.
   Used for Sequence (psq = true) and, ignoring the results, for And and Not (psq = false). *)
Fixpoint seq_loop (rec : parser) (psq : bool) (kids : list nat) (acc : list res) (s : st) : out :=
  match kids with
  | [] => Ok (RList acc) s
  | c :: kids' =>
    match rec c psq s with
    | Ok r s1 => seq_loop rec psq kids' (if truthy r then acc ++ [r] else acc) s1
    | Fail s1 => Fail s1
    | Abort w => Abort w
    end
  end.

(* OrderedChoice: result [Ok RNone s] means "no alternative matched". A None result does not
   reset the position before the next alternative is tried. *)
Fixpoint choice_loop (rec : parser) (c_pos : nat) (kids : list nat) (s : st) : out :=
  match kids with
  | [] => Ok RNone s
  | c :: kids' =>
    match rec c false s with
    | Ok r s1 => if is_none r then choice_loop rec c_pos kids' s1 else Ok r s1
    | Fail s1 => choice_loop rec c_pos kids' (set_pos c_pos s1)
    | Abort w => Abort w
    end
  end.

(* ZeroOrMore / OneOrMore main loop. [first]: no element matched yet (so no separator is tried
   and, for OneOrMore, a NoMatch propagates). *)
Fixpoint rep_loop (rec : parser) (e : nat) (sep : option nat) (plus : bool)
         (k : nat) (first : bool) (acc : list res) (s : st) : out :=
  match k with
  | 0 => Abort 0
  | S k' =>
    let c_pos := pos s in
    let on_nomatch (s1 : st) :=
        if (plus && first)%bool then Fail (set_pos c_pos s1) else Ok (RList acc) (set_pos c_pos s1) in
    let elem (acc1 : list res) (s1 : st) :=
        match rec e false s1 with
        | Ok r s2 => if truthy r then rep_loop rec e sep plus k' false (acc1 ++ [r]) s2
                     else Ok (RList acc1) s2                   (* break, position kept *)
        | Fail s2 => if (plus && first)%bool then Fail (set_pos c_pos s2)
                     else Ok (RList acc1) (set_pos c_pos s2)   (* appended separator stays *)
        | Abort w => Abort w
        end in
    match sep with
    | Some sp =>
      if first then elem acc s
      else match rec sp false s with
           | Ok sr s1 => elem (if truthy sr then acc ++ [sr] else acc) s1
           | Fail s1 => on_nomatch s1
           | Abort w => Abort w
           end
    | None => elem acc s
    end
  end.

(* UnorderedGroup: the inner [for e in list(nodes_to_try)] *)
Inductive ugr :=
| UGHit (e : nat) (r : res) (s : st)     (* element e produced a truthy result *)
| UGNone (mt : bool) (s : st)            (* loop exhausted; mt = the [match] flag *)
| UGAbort (w : nat).

Fixpoint ug_try (rec : parser) (sep_failed : bool) (c_loc : nat) (todo : list nat)
         (mt : bool) (s : st) : ugr :=
  match todo with
  | [] => UGNone mt s
  | e :: rest =>
    match rec e false s with
    | Ok r s1 =>
      if truthy r then
        if sep_failed then ug_try rec sep_failed c_loc rest false (set_pos c_loc s1)
                           (* raise sep_exc, caught by the except clause just below it *)
        else UGHit e r s1
      else ug_try rec sep_failed c_loc rest mt s1
    | Fail s1 => ug_try rec sep_failed c_loc rest false (set_pos c_loc s1)
    | Abort w => UGAbort w
    end
  end.

(* the outer [while nodes_to_try]; result: (match flag, results, state) *)
Inductive ugo := UGDone (mt : bool) (acc : list res) (s : st) | UGOAbort (w : nat).

Fixpoint ug_loop (rec : parser) (sep : option nat) (n : nat) (todo : list nat) (first : bool)
         (sep_result : res) (acc : list res) (s : st) : ugo :=
  match todo with
  | [] => UGDone true acc s
  | _ :: _ =>
    match n with
    | 0 => UGOAbort 0
    | S n' =>
      let c_loc_sep := pos s in
      let cont (sep_failed : bool) (sr : res) (s1 : st) :=
          match ug_try rec sep_failed (pos s1) todo true s1 with
          | UGHit e r s2 =>
            ug_loop rec sep n' (remove_first e todo) false sr
                    ((if truthy sr then acc ++ [sr] else acc) ++ [r]) s2
          | UGNone mt s2 => UGDone mt acc (set_pos c_loc_sep s2)
          | UGAbort w => UGOAbort w
          end in
      match sep with
      | Some sp =>
        if first then cont false sep_result s
        else match rec sp false s with
             | Ok sr s1 => cont false sr s1
             | Fail s1 => cont true sep_result (set_pos c_loc_sep s1)
             | Abort w => UGOAbort w
             end
      | None => cont false sep_result s
      end
    end
  end.

(* ---------------------------------------------------------------- _parse of non-terminals *)
Definition enter_ws (nd : node) (s : st) : st :=
  let s1 := match n_ws nd with Some w => set_ws w s | None => s end in
  match n_skipws nd with Some b => set_skipws b s1 | None => s1 end.
(* the finally block: parser.ws = old_ws (the effective ws read before), parser.skipws = old *)
Definition leave_ws (nd : node) (old : st) (s : st) : st :=
  let s1 := match n_ws nd with Some _ => set_ws (ws old) s | None => s end in
  match n_skipws nd with Some _ => set_skipws (skipws old) s1 | None => s1 end.

Definition enter_eol (nd : node) (s : st) : st := if n_eolterm nd then set_eolterm true s else s.
Definition leave_eol (nd : node) (old : st) (s : st) : st :=
  if n_eolterm nd then set_eolterm (eolterm old) s else s.

Definition body (rec : parser) (k : nat) (nd : node) (s : st) : out :=
  let c_pos := pos s in
  match n_kind nd with
  | KSeq =>
    match seq_loop rec true (n_kids nd) [] (enter_ws nd s) with
    | Ok (RList []) s1 => Ok RNone (leave_ws nd s s1)
    | Ok r s1 => Ok r (leave_ws nd s s1)
    | Fail s1 => Fail (leave_ws nd s (set_pos c_pos s1))
    | Abort w => Abort w
    end
  | KChoice =>
    match choice_loop rec c_pos (n_kids nd) (enter_ws nd s) with
    | Ok r s1 => if is_none r then nm_raise c_pos (leave_ws nd s s1)
                 else Ok (RList [r]) (leave_ws nd s s1)
    | Fail s1 => Fail s1     (* unreachable: choice_loop never fails *)
    | Abort w => Abort w
    end
  | KOpt =>
    match n_kids nd with
    | e :: _ =>
      match rec e false s with
      | Ok r s1 => Ok (RList [r]) s1
      | Fail s1 => Ok RNone (set_pos c_pos s1)
      | Abort w => Abort w
      end
    | [] => Abort 1
    end
  | KStar =>
    match n_kids nd with
    | e :: _ =>
      match rep_loop rec e (n_sep nd) false k true [] (enter_eol nd s) with
      | Ok r s1 => Ok r (leave_eol nd s s1)
      | Fail s1 => Fail (leave_eol nd s s1)   (* unreachable *)
      | Abort w => Abort w
      end
    | [] => Abort 1
    end
  | KPlus =>
    match n_kids nd with
    | e :: _ =>
      match rep_loop rec e (n_sep nd) true k true [] (enter_eol nd s) with
      | Ok r s1 => Ok r (leave_eol nd s s1)
      | Fail s1 => Fail (leave_eol nd s s1)
      | Abort w => Abort w
      end
    | [] => Abort 1
    end
  | KUnord =>
    match n_kids nd with
    | [] => Abort 1                        (* UnboundLocalError: match *)
    | _ :: _ =>
      match ug_loop rec (n_sep nd) (S (length (n_kids nd))) (n_kids nd) true RNone []
                    (enter_eol nd s) with
      | UGDone mt acc s1 =>
        let s2 := leave_eol nd s s1 in
        if mt then Ok (match acc with [] => RNone | _ => RList acc end) s2
        else nm_raise c_pos (set_pos c_pos s2)
      | UGOAbort w => Abort w
      end
    end
  | KAnd =>
    match seq_loop rec false (n_kids nd) [] s with
    | Ok _ s1 => Ok RNone (set_pos c_pos s1)
    | Fail s1 => Fail (set_pos c_pos s1)
    | Abort w => Abort w
    end
  | KNot =>
    match seq_loop rec false (n_kids nd) [] s with
    | Ok _ s1 => nm_raise c_pos (set_pos c_pos s1)
    | Fail s1 => Ok RNone (set_pos c_pos s1)
    | Abort w => Abort w
    end
  | KEmpty => Ok RNone s
  | _ => Abort 1
  end.

(* the part of ParsingExpression.parse after self._parse returned *)
Definition post (nid : nat) (nd : node) (r : res) : res :=
  let r1 := if (n_suppress nd || head_is_none r)%bool then RNone else r in
  if (n_root nd && truthy r1 && negb (is_ptnode r1))%bool then RTree (NT nid (flatten r1)) else r1.

(* ---------------------------------------------------------------- parse() *)
Fixpoint parse (fuel : nat) (nid : nat) (psq : bool) (s : st) : out :=
  match fuel with
  | 0 => Abort 0
  | S f =>
    match get_node g nid with
    | None => Abort 1
    | Some nd =>
      if is_match_kind (n_kind nd) then
        (* Match.parse: never memoized *)
        match match_pre (parse f) f s with
        | Ok _ s1 =>
          match term_parse nid (n_kind nd) psq s1 with
          | Ok r s2 => Ok (if n_suppress nd then RNone else r) s2
          | o => o
          end
        | o => o
        end
      else
        let c_pos := pos s in
        match (if memo then clookup nid c_pos (cache s) else None) with
        | Some (CNoMatch, np) => Fail (set_pos np s)          (* raise parser.nm *)
        | Some (CRes r, np) => Ok r (set_pos np s)
        | None =>
          match body (parse f) f nd s with
          | Ok r s1 =>
            let r' := post nid nd r in
            Ok r' (if memo then cput nid c_pos (CRes r', pos s1) s1 else s1)
          | Fail s1 =>
            let s2 := set_pos c_pos s1 in
            Fail (if memo then cput nid c_pos (CNoMatch, c_pos) s2 else s2)
          | Abort w => Abort w
          end
        end
    end
  end.

End Interp.

(* ---------------------------------------------------------------- Parser.parse *)
Definition init_st (c : config) : st :=
  mkSt 0 (c_ws c) (c_ws c) (c_skipws c) false false None [] [].

Inductive outcome :=
| Parsed (r : res)               (* parser.parse_tree *)
| SyntaxErr (p : nat)            (* NoMatch.position *)
| Aborted (why : nat).

Definition run (g : grammar) (c : config) (orc : nat -> nat -> option nat) (memo : bool)
           (fuel : nat) (input : list N) : outcome :=
  match parse g input orc memo fuel (g_top g) false (init_st c) with
  | Ok r _ => Parsed r
  | Fail s => SyntaxErr (nm_pos s)
  | Abort w => Aborted w
  end.

(* oracle from a finite table ((oracle id, position), length); absent = no match *)
Definition orc_of (tbl : list ((nat * nat) * nat)) (o p : nat) : option nat :=
  (fix go (m : list ((nat * nat) * nat)) : option nat :=
     match m with
     | [] => None
     | ((o', p'), v) :: m' => if (Nat.eqb o o' && Nat.eqb p p')%bool then Some v else go m'
     end) tbl.
