(* C05 — the navigation functions of Model/Nav.v with the places the model hard-codes turned into
   parameters.  tools/translate/nav_tr.py reads the actual bodies of get_model,
   get_parent_of_type and get_children from textx/model.py and emits which alternative the source
   uses at each place (Gen/SrcNavBody.v); the theorems are re-proved for that instance.
   [truthy] is Python's truth value of a value, [eqv] Python's `==` on model objects: arbitrary
   functions (user classes may define __bool__/__len__/__eq__).  No proofs. *)
From TxV Require Import Core.Base Model.Nav.

Inductive seen_test := SeenId | SeenEq.            (* `id(elem) in collected_ids` | `elem in collected` *)
Inductive cf_cond := WhenCf | WhenNotCf | Always | Never.
Inductive val_test := NotNone | Truthy.            (* `x is not None` | `x` *)
Inductive loop_test := LHasattr | LNotNone | LTruthy.

Record gc_cfg := {
  g_seen : seen_test;
  g_pre : cf_cond;                 (* when the element is collected before its contents *)
  g_post : cf_cond;                (* ... after its contents *)
  g_single : val_test * bool;      (* single-valued branch: test of the value, should_follow applied? *)
  g_elem : val_test * bool;        (* list branch, per element *)
  g_root_sf : bool }.              (* should_follow applied to the start object? *)

Definition std_gc_cfg : gc_cfg :=
  {| g_seen := SeenId; g_pre := WhenNotCf; g_post := WhenCf;
     g_single := (NotNone, true); g_elem := (NotNone, true); g_root_sf := false |}.

Definition cond_holds (c : cf_cond) (cf : bool) : bool :=
  match c with WhenCf => cf | WhenNotCf => negb cf | Always => true | Never => false end.

Definition passes (truthy sf : obj -> bool) (t : val_test * bool) (v : obj) : bool :=
  (match fst t with NotNone => true | Truthy => truthy v end) && (if snd t then sf v else true).

Section Cfg.
  Variable cfg : gc_cfg.
  Variable truthy : obj -> bool.
  Variable eqv : obj -> obj -> bool.

  Definition seen (elem : obj) (id : N) (st : state) : bool :=
    match g_seen cfg with
    | SeenId => mem_N id (snd st)
    | SeenEq => existsb (eqv elem) (fst st)
    end.

  Definition follow_elems_cfg (F : obj -> state -> state) (sf : obj -> bool) : list obj -> state -> state :=
    fix elems (vs : list obj) (st : state) : state :=
      match vs with
      | [] => st
      | v :: vs' => elems vs' (if passes truthy sf (g_elem cfg) v then F v st else st)
      end.

  Definition follow_attrs_cfg (F : obj -> state -> state) (sf : obj -> bool)
    : list (ameta * list obj) -> state -> state :=
    fix attrs (ss : list (ameta * list obj)) (st : state) : state :=
      match ss with
      | [] => st
      | (m, vs) :: ss' =>
          attrs ss'
            (if acont m then
               if amany m then follow_elems_cfg F sf vs st
               else match vs with
                    | [] => st
                    | v :: _ => if passes truthy sf (g_single cfg) v then F v st else st
                    end
             else st)
      end.

  Fixpoint follow_cfg (sel sf : obj -> bool) (cf : bool) (elem : obj) (st : state) {struct elem} : state :=
    match elem with
    | Node id _ slots =>
        if seen elem id st then st
        else
          let st1 := if (cond_holds (g_pre cfg) cf && sel elem)%bool then collect elem id st else st in
          let st2 := follow_attrs_cfg (follow_cfg sel sf cf) sf slots st1 in
          if (cond_holds (g_post cfg) cf && sel elem)%bool then collect elem id st2 else st2
    | _ => st
    end.

  Definition get_children_cfg (sel : obj -> bool) (root : obj) (cf : bool) (sf : obj -> bool) : list obj :=
    fst (if (g_root_sf cfg && negb (sf root))%bool then ([], []) else follow_cfg sel sf cf root ([], [])).
End Cfg.

(* get_model with the loop test as a parameter; [truthy_id] = truth value of the model object *)
Fixpoint get_model_cfg (lt : loop_test) (truthy_id : N -> bool) (h : heap) (fuel : nat) (p : N) : gres :=
  match fuel with
  | O => GFuel
  | S f =>
      match lookup p h with
      | None => GOther
      | Some ho =>
          match hparent ho with
          | None => GObj p
          | Some (PObj q) =>
              if (match lt with LTruthy => truthy_id q | _ => true end)
              then get_model_cfg lt truthy_id h f q else GObj p
          | Some POther => GOther
          end
      end
  end.

(* get_parent_of_type: [test_start] = the class-name test runs before the step to the parent, so the
   start object itself is a candidate *)
Fixpoint pot_cfg (test_start : bool) (h : heap) (fuel : nat) (typ : list N) (p : N) : pres :=
  match fuel with
  | O => PFuel
  | S f =>
      match lookup p h with
      | None => PNone
      | Some ho =>
          if (test_start && str_eqb (hcls ho) typ)%bool then PFound p
          else
            match hparent ho with
            | None => PNone
            | Some POther => PNone
            | Some (PObj q) =>
                if test_start then pot_cfg test_start h f typ q
                else match lookup q h with
                     | Some hq => if str_eqb (hcls hq) typ then PFound q else pot_cfg test_start h f typ q
                     | None => PNone
                     end
            end
      end
  end.
