(* The PEG the token parser of Model/RrelSyntax.v (p_seq / p_path / p_elems / p_x / p_pe, p_expr)
   and the lexer of Model/RrelSyntaxText.v (first_tok) were written from, as data, and a
   structural comparison with a live parser model in the table form of Model/PegSyntax.v
   (dumped by tools/pegdump.py from ParserPython(rrel_standalone, reduce_tree=False)).

   A rule is (rule name, body); bodies refer to other rules by name (PRef), which is how
   ParserPython resolves rule functions: one node per rule function, shared by all its uses. *)
From TxV Require Import Core.Base Model.PegSyntax Gen.SrcRrelSyntax.

Inductive pexp :=
| PSeq (l : list pexp)            (* a Python tuple                          *)
| PChoice (l : list pexp)         (* a Python list                           *)
| POpt (e : pexp)                 (* Optional(e)                             *)
| PStar (e : pexp)                (* ArpeggioZeroOrMore(..) without separator *)
| PStr (s : list N)               (* a str                                   *)
| PRe (pat : list N)              (* _(r"...")                               *)
| PEOF                            (* EOF                                     *)
| PRef (rule : list N).           (* a rule function                         *)

Definition nm (s : list N) := s.
Definition r_standalone := [114;114;101;108;95;115;116;97;110;100;97;108;111;110;101]%N.
Definition r_expression := [114;114;101;108;95;101;120;112;114;101;115;115;105;111;110]%N.
Definition r_sequence := [114;114;101;108;95;115;101;113;117;101;110;99;101]%N.
Definition r_path := [114;114;101;108;95;112;97;116;104]%N.
Definition r_dots := [114;114;101;108;95;100;111;116;115]%N.
Definition r_zero_or_more := [114;114;101;108;95;122;101;114;111;95;111;114;95;109;111;114;101]%N.
Definition r_path_element := [114;114;101;108;95;112;97;116;104;95;101;108;101;109;101;110;116]%N.
Definition r_parent := [114;114;101;108;95;112;97;114;101;110;116]%N.
Definition r_id := [114;114;101;108;95;105;100]%N.
Definition r_brackets := [114;114;101;108;95;98;114;97;99;107;101;116;115]%N.
Definition r_navigation := [114;114;101;108;95;110;97;118;105;103;97;116;105;111;110]%N.
Definition r_string_value := [115;116;114;105;110;103;95;118;97;108;117;101]%N.
Definition r_EOF := [69;79;70]%N.

Definition x_or_elem : pexp := PChoice [PRef r_zero_or_more; PRef r_path_element].   (* p_x *)
Definition head_of_path : pexp := PChoice [PStr g_caret; PRef r_dots].               (* the head of p_path *)

Definition rrel_rules : list (list N * pexp) :=
  [ (r_standalone,   PSeq [PRef r_expression; PRef r_EOF]);                            (* parse_toks: nothing may follow *)
    (r_expression,   PSeq [POpt (PRe pat_rrel_flags); PRef r_sequence]);                (* p_expr *)
    (r_sequence,     PSeq [PStar (PSeq [PRef r_path; PStr g_comma]); PRef r_path]);     (* p_seq: (path ',')* path *)
    (r_path,         PChoice [PSeq [POpt head_of_path;                                  (* p_path *)
                                    PStar (PSeq [x_or_elem; PStr g_dot]);               (* p_elems: (X '.')* X *)
                                    x_or_elem];
                              head_of_path]);
    (r_dots,         PRe pat_rrel_dots);                                                (* TDots *)
    (r_zero_or_more, PSeq [PRef r_path_element; PStr g_star]);                          (* p_x: path_element '*' *)
    (r_path_element, PChoice [PRef r_parent; PRef r_brackets; PRef r_navigation]);      (* p_pe *)
    (r_parent,       PSeq [PStr g_parent_kw; PStr g_lparen; PRef r_id; PStr g_rparen]);
    (r_id,           PRe pat_rrel_id);                                                  (* TId *)
    (r_brackets,     PSeq [PStr g_lparen; PRef r_sequence; PStr g_rparen]);
    (r_navigation,   PChoice [PSeq [POpt (PStr g_tilde); PRef r_id];
                              PSeq [POpt (PRef r_string_value); PStr g_tilde; PRef r_id]]);
    (r_string_value, PChoice [PRe pat_string_value_0; PRe pat_string_value_1]);         (* TStr *)
    (r_EOF,          PEOF) ].

(* ------------------------------------------------------------ comparison with a node table *)
Definition is_rule (name : list N) (nd : node) : bool := (n_root nd && str_eqb (n_rule nd) name)%bool.

Fixpoint find_idx (f : node -> bool) (l : list node) (i : nat) : option nat :=
  match l with
  | [] => None
  | nd :: l' => if f nd then Some i else find_idx f l' (S i)
  end.
Definition rule_idx (g : grammar) (name : list N) : option nat := find_idx (is_rule name) (g_nodes g) 0.
Definition count_rule (g : grammar) (name : list N) : nat := length (filter (is_rule name) (g_nodes g)).

(* no separator, eolterm, suppression or rule-level whitespace settings anywhere *)
Definition plain (nd : node) : bool :=
  (match n_sep nd with None => true | Some _ => false end && negb (n_eolterm nd) && negb (n_suppress nd)
   && match n_ws nd with None => true | Some _ => false end
   && match n_skipws nd with None => true | Some _ => false end)%bool.

Definition re_flags : nat := 40.     (* re.MULTILINE | re.UNICODE: Arpeggio's default for a str pattern *)

Definition kind_is (g : grammar) (orc : list (list N * nat)) (e : pexp) (k : kind) : bool :=
  match e, k with
  | PSeq _, KSeq => true
  | PChoice _, KChoice => true
  | POpt _, KOpt => true
  | PStar _, KStar => true
  | PStr s, KStr t None => str_eqb s t
  | PRe pat, KRegex oid => match nth_error orc oid with
                           | Some (p, fl) => (str_eqb pat p && Nat.eqb fl re_flags)%bool
                           | None => false
                           end
  | PEOF, KEOF => true
  | _, _ => false
  end.

(* node i of g is the expression e; root/name: what the node's rule fields must be *)
Fixpoint pm (g : grammar) (orc : list (list N * nat)) (e : pexp) (i : nat) (root : bool) (name : list N) {struct e} : bool :=
  match get_node g i with
  | None => false
  | Some nd =>
      match e with
      | PRef r => (is_rule r nd && match rule_idx g r with Some j => Nat.eqb i j | None => false end)%bool
      | _ =>
        (plain nd && Bool.eqb (n_root nd) root && str_eqb (n_rule nd) name && kind_is g orc e (n_kind nd) &&
         match e with
         | PSeq l | PChoice l =>
             (fix go (l : list pexp) (ks : list nat) : bool :=
                match l, ks with
                | [], [] => true
                | e' :: l', k :: ks' => (pm g orc e' k false [] && go l' ks')%bool
                | _, _ => false
                end) l (n_kids nd)
         | POpt e' | PStar e' => match n_kids nd with [k] => pm g orc e' k false [] | _ => false end
         | _ => match n_kids nd with [] => true | _ => false end
         end)%bool
      end
  end.

Fixpoint psize (e : pexp) : nat :=
  match e with
  | PSeq l | PChoice l => S ((fix go (l : list pexp) : nat := match l with [] => 0 | e' :: l' => psize e' + go l' end) l)
  | POpt e' | PStar e' => S (psize e')
  | PRef _ => 0
  | _ => 1
  end.

Definition peg_check (g : grammar) (cfg : config) (orc : list (list N * nat)) (rules : list (list N * pexp)) : bool :=
  (forallb (fun r => match rule_idx g (fst r) with
                     | Some i => (pm g orc (snd r) i true (fst r) && Nat.eqb (count_rule g (fst r)) 1)%bool
                     | None => false
                     end) rules
   (* every node of the table is one of the transcribed expressions, every rule is a transcribed rule *)
   && Nat.eqb (length (g_nodes g)) (fold_right (fun r n => psize (snd r) + n) 0 rules)
   && forallb (fun nd => (negb (n_root nd) || existsb (fun r => str_eqb (fst r) (n_rule nd)) rules)%bool) (g_nodes g)
   && match rule_idx g r_standalone with Some i => Nat.eqb (g_top g) i | None => false end
   && match g_comments g with None => true | Some _ => false end
   && c_skipws cfg && str_eqb (c_ws cfg) g_ws)%bool.
