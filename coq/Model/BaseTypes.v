(* Built-in base types of textX: which text each type matches (the translated regexes of
   lang.py run by Model/Rx.v, the NUMBER / BASETYPE ordered choices) and what value the
   default processors of metamodel.py turn the matched text into; plus the loading loop of
   the observation grammar `Model: v*=T;` (skip whitespace, match, convert, repeat, EOF).
   Executable model only; proofs are in Proofs/BaseTypesProofs.v. *)
From TxV Require Import Core.Base Model.Rx Gen.SrcRegex Gen.SrcBaseConv.

Inductive bt := TID | TBOOL | TINT | TFLOAT | TSTRICTFLOAT | TSTRING | TNUMBER | TBASETYPE.

(* codes used by Gen/SrcRegex.v for the members of the ordered choices *)
Definition bt_of_code (n : nat) : option bt :=
  match n with
  | 0 => Some TID | 1 => Some TBOOL | 2 => Some TINT | 3 => Some TFLOAT
  | 4 => Some TSTRICTFLOAT | 5 => Some TSTRING | 6 => Some TNUMBER | 7 => Some TBASETYPE
  | _ => None
  end%nat.

Definition bt_rx (t : bt) : option rx :=
  match t with
  | TID => Some rx_ID | TBOOL => Some rx_BOOL | TINT => Some rx_INT | TFLOAT => Some rx_FLOAT
  | TSTRICTFLOAT => Some rx_STRICTFLOAT | TSTRING => Some rx_STRING
  | TNUMBER | TBASETYPE => None
  end.

(* a RegExMatch that matches the empty text yields no node, which an ordered choice treats
   as a failed alternative *)
Definition leaf_match (E : rxenv) (t : bt) (pre rest : list N) : option (bt * nat) :=
  match bt_rx t with
  | None => None
  | Some r => match rx_match E r pre rest with
              | Some (S n) => Some (t, S n)
              | _ => None
              end
  end.

Fixpoint first_some {A B} (f : A -> option B) (l : list A) : option B :=
  match l with
  | [] => None
  | x :: l' => match f x with Some y => Some y | None => first_some f l' end
  end.

Definition code_leaf_match (E : rxenv) (pre rest : list N) (code : nat) : option (bt * nat) :=
  match bt_of_code code with Some t => leaf_match E t pre rest | None => None end.

Definition number_match (E : rxenv) (pre rest : list N) : option (bt * nat) :=
  first_some (code_leaf_match E pre rest) choice_NUMBER.

Definition basetype_match (E : rxenv) (pre rest : list N) : option (bt * nat) :=
  first_some (fun code => match bt_of_code code with
                          | Some TNUMBER => number_match E pre rest
                          | Some t => leaf_match E t pre rest
                          | None => None
                          end) choice_BASETYPE.

(* the terminal rule that matched (its name selects the processor) and the match length *)
Definition bt_match (E : rxenv) (t : bt) (pre rest : list N) : option (bt * nat) :=
  match t with
  | TNUMBER => number_match E pre rest
  | TBASETYPE => basetype_match E pre rest
  | _ => leaf_match E t pre rest
  end.

(* ---- conversion *)
Inductive value :=
| VInt (z : Z)
| VFloat (lit : list N)      (* float(lit): float() is an oracle, the model keeps the literal text *)
| VBool (b : bool)
| VStr (s : list N)
| VBad (x : list N).          (* int() would raise *)

(* int(x) for x of the form [+-]?[0-9]+ (all the INT regex can produce); None otherwise *)
Definition digit_val (c : N) : option Z :=
  if in_range 48 57 c then Some (Z.of_N (c - 48)) else None.

Fixpoint digits_val (acc : Z) (s : list N) : option Z :=
  match s with
  | [] => Some acc
  | c :: s' => match digit_val c with
               | Some d => digits_val (acc * 10 + d) s'
               | None => None
               end
  end.

Definition int_of_text (x : list N) : option Z :=
  match x with
  | [] => None
  | c :: x' =>
    if N.eqb c 45 then match x' with [] => None | _ => option_map Z.opp (digits_val 0 x') end
    else if N.eqb c 43 then match x' with [] => None | _ => digits_val 0 x' end
    else digits_val 0 x
  end.

(* str.replace(pat, rep) for a non-empty pattern: left to right, non-overlapping *)
Fixpoint replace_go (pat rep : list N) (skip : nat) (s : list N) : list N :=
  match s with
  | [] => []
  | c :: s' =>
    match skip with
    | S k => replace_go pat rep k s'
    | O => if is_prefix pat s then rep ++ replace_go pat rep (Nat.pred (length pat)) s'
           else c :: replace_go pat rep O s'
    end
  end.

Definition replace (pat rep s : list N) : list N :=
  match pat with [] => s | _ => replace_go pat rep O s end.

Definition replace_chain (steps : list (list N * list N)) (s : list N) : list N :=
  fold_left (fun acc pr => replace (fst pr) (snd pr) acc) steps s.

Definition string_conv (x : list N) : list N :=
  let body := removelast (tl x) in
  match x with
  | c :: _ => if N.eqb c conv_string_test then replace_chain conv_string_then body
              else replace_chain conv_string_else body
  | [] => []
  end.

Definition bool_conv (x : list N) : bool :=
  (str_eqb x conv_bool_exact || str_eqb (map lower_ascii x) conv_bool_lower)%bool.

Definition convert (leaf : bt) (x : list N) : value :=
  match leaf with
  | TINT => match int_of_text x with Some z => VInt z | None => VBad x end
  | TFLOAT | TSTRICTFLOAT => VFloat x
  | TBOOL => VBool (bool_conv x)
  | TSTRING => VStr (string_conv x)
  | _ => VStr x                          (* ID: no processor *)
  end.

(* ---- `Model: v*=T;` : ZeroOrMore of (skip whitespace; match T) then EOF after whitespace *)
Definition is_ws (c : N) : bool := existsb (N.eqb c) src_ws.

Fixpoint skip_ws (pre rest : list N) : list N * list N :=
  match rest with
  | c :: rest' => if is_ws c then skip_ws (c :: pre) rest' else (pre, rest)
  | [] => (pre, rest)
  end.

Fixpoint take_rev (n : nat) (pre rest : list N) : list N * list N :=
  match n, rest with
  | S n', c :: rest' => take_rev n' (c :: pre) rest'
  | _, _ => (pre, rest)
  end.

(* None = syntax error (the text is not a sequence of T); fuel = S |text| is never exhausted
   because every item consumes at least one character *)
Fixpoint load_many_go (E : rxenv) (t : bt) (fuel : nat) (pre rest : list N) : option (list value) :=
  match fuel with
  | O => None
  | S f =>
    let '(pre1, rest1) := skip_ws pre rest in
    match bt_match E t pre1 rest1 with
    | Some (leaf, n) =>
        let '(pre2, rest2) := take_rev n pre1 rest1 in
        match load_many_go E t f pre2 rest2 with
        | Some vs => Some (convert leaf (firstn n rest1) :: vs)
        | None => None
        end
    | None => match rest1 with [] => Some [] | _ => None end
    end
  end.

Definition load_many (E : rxenv) (t : bt) (text : list N) : option (list value) :=
  load_many_go E t (S (length text)) [] text.

(* ---- `Model: v*=V; V: R0 | R1 | ...; Ri: v=Ti;` : at every item the alternatives are tried in order after
   skipping whitespace.  Result per item: (index of the alternative, value, start, end) *)
Fixpoint first_alt (E : rxenv) (ts : list bt) (k : nat) (pre rest : list N) : option (nat * bt * nat) :=
  match ts with
  | [] => None
  | t :: ts' => match bt_match E t pre rest with
                | Some (leaf, n) => Some (k, leaf, n)
                | None => first_alt E ts' (S k) pre rest
                end
  end.

Fixpoint load_alts_go (E : rxenv) (ts : list bt) (fuel : nat) (pre rest : list N)
  : option (list (nat * value * nat * nat)) :=
  match fuel with
  | O => None
  | S f =>
    let '(pre1, rest1) := skip_ws pre rest in
    match first_alt E ts O pre1 rest1 with
    | Some (k, leaf, n) =>
        let '(pre2, rest2) := take_rev n pre1 rest1 in
        match load_alts_go E ts f pre2 rest2 with
        | Some vs => Some ((k, convert leaf (firstn n rest1), length pre1, length pre1 + n) :: vs)
        | None => None
        end
    | None => match rest1 with [] => Some [] | _ => None end
    end
  end.

Definition load_alts (E : rxenv) (ts : list bt) (text : list N) : option (list (nat * value * nat * nat)) :=
  load_alts_go E ts (S (length text)) [] text.
