(* The shape of the write protocol that tools/translate/fsops_tr.py extracts from textx/export.py
   (the statements of _write_atomically, or of an exporter that opens the target directly). *)
Inductive prog :=
| PSkip
| PSeq (a b : prog)
| POpen (body : prog)            (* with open(<name>, 'w') as f: body   -- closes f on every exit *)
| PTry (body handler : prog)     (* try: body / except BaseException: handler; raise *)
| PWrite                         (* write(f): the generator writes its output to f *)
| PReplace                       (* os.replace(<temporary name>, file_name) *)
| PMove                          (* shutil.move(<temporary name>, file_name): rename, or copy + unlink when rename fails *)
| PRemoveTmp.                    (* with suppress(OSError): os.remove(<temporary name>) *)
