(* Executable model of metamodel_export_tofile over the class list that get_unified_classes returns
   (dumped by the harness: classes are numbered by their position), generic in the renderer, with the two
   renderers of textx/export.py: DotRenderer and PlantUmlRenderer.  The legend / match-rule table of the
   trailers prints PEG rules (dot_match_str); its rows are an input here.  No proofs. *)
From Coq Require Import String Ascii.
From TxV Require Import Core.Base Model.ExportDefs Gen.SrcExport Model.Export Model.ExportWalk.

Fixpoint codes (s : string) : list N :=
  match s with
  | EmptyString => []
  | String a s' => N_of_ascii a :: codes s'
  end.
Definition nl : list N := [10%N].
Definition dq : list N := [34%N].
Definition bsl : list N := [92%N].

Inductive rkind := KCommon | KAbstract | KMatch.
Inductive mult := M1 | M01 | M0s | M1s.
Record mattr := mkMAttr { ma_name : list N; ma_cls : nat; ma_mult : mult; ma_cont : bool; ma_ref : bool }.
Record mcls := mkMCls { mc_name : list N; mc_fqn : list N; mc_typ : rkind; mc_attrs : list mattr; mc_inh : list nat }.

Definition all_type_names : list (list N) := base_type_names ++ [object_name].
Definition mult_text (m : mult) : list N :=
  match m with M1 => codes "1" | M01 => codes "0..1" | M0s => codes "0..*" | M1s => codes "1..*" end.
Definition mult_required (m : mult) : bool := match m with M1 | M1s => true | _ => false end.
Definition mult_list (m : mult) : bool := match m with M0s | M1s => true | _ => false end.
Definition is_match (c : mcls) : bool := match mc_typ c with KMatch => true | _ => false end.

(* what is written: its text, tagged when it is the node statement / class declaration of class k or an edge *)
Inductive mtag := MNode (k : nat) | MEdge (a b : nat) | MOther.
Definition mstmt := (mtag * list N)%type.

Record renderer := mkRenderer {
  r_class : list mcls -> nat -> mcls -> list N;                 (* a class that is not a match rule *)
  r_link : list mcls -> nat -> mcls -> mattr -> mcls -> list N;   (* class, attribute, its target class *)
  r_inh : nat -> mcls -> nat -> mcls -> list N }.               (* base, special *)

Definition indexed {X : Type} (l : list X) : list (nat * X) := combine (seq 0 (length l)) l.

Section Meta.
  Variable cl : list mcls.
  Variable R : renderer.

  Definition in_classes (c : mcls) : bool := negb (mem_str (mc_fqn c) all_type_names).
  Definition named_builtin (c : mcls) : bool := mem_str (mc_name c) all_type_names.
  (* render_class: nothing for a match rule *)
  Definition class_stmt (k : nat) (c : mcls) : list mstmt :=
    if is_match c then [] else [(MNode k, r_class R cl k c)].
  Definition is_link (a : mattr) (t : mcls) : bool := ma_ref a && negb (str_eqb (mc_name t) object_name).

  Definition first_part : list mstmt :=
    flat_map (fun kc => if in_classes (snd kc) && negb (named_builtin (snd kc)) then class_stmt (fst kc) (snd kc) else [])
             (indexed cl).

  Definition attr_stmts (k : nat) (c : mcls) (a : mattr) : list mstmt :=
    match nth_error cl (ma_cls a) with
    | None => []
    | Some t =>
        (if is_link a t then [(MEdge k (ma_cls a), r_link R cl k c a t)] else [])
        ++ (if in_classes t then [] else class_stmt (ma_cls a) t)
    end.
  Definition inh_stmts (k : nat) (c : mcls) : list mstmt :=
    flat_map (fun j => match nth_error cl j with Some t => [(MEdge k j, r_inh R k c j t)] | None => [] end) (mc_inh c).

  Definition second_part : list mstmt :=
    flat_map (fun kc => if in_classes (snd kc)
                        then flat_map (attr_stmts (fst kc) (snd kc)) (mc_attrs (snd kc)) ++ inh_stmts (fst kc) (snd kc)
                        else [])
             (indexed cl).

  Definition mm_stmts : list mstmt := first_part ++ [(MOther, nl ++ nl)] ++ second_part.
  Definition mm_doc (header trailer : list N) : list N := header ++ flat_map snd mm_stmts ++ trailer.

  Definition mnode_ids (l : list mstmt) : list nat :=
    flat_map (fun s => match fst s with MNode k => [k] | _ => [] end) l.
  Definition medges (l : list mstmt) : list (nat * nat) :=
    flat_map (fun s => match fst s with MEdge a b => [(a, b)] | _ => [] end) l.

  (* the classes that get their own node statement / declaration *)
  Definition has_node (c : mcls) : bool := in_classes c && negb (named_builtin c) && negb (is_match c).

  (* what textX guarantees about the class list (checked on every dumped list): a class that has a link or a
     specialisation, and the class at the other end, are exported classes that are not match rules *)
  Definition wf_mm : bool :=
    forallb (fun kc =>
      let c := snd kc in
      if in_classes c then
        forallb (fun a => match nth_error cl (ma_cls a) with
                          | Some t => if is_link a t then has_node c && has_node t else true
                          | None => true end) (mc_attrs c)
        && forallb (fun j => match nth_error cl j with Some t => has_node c && has_node t | None => true end) (mc_inh c)
      else true) (indexed cl).
End Meta.

(* ---------------------------------------------------------------- DotRenderer *)
Definition cls_name (cl : list mcls) (j : nat) : list N := match nth_error cl j with Some t => mc_name t | None => [] end.
Definition attr_type (cl : list mcls) (a : mattr) : list N :=
  if mult_list (ma_mult a) then codes "list[" ++ cls_name cl (ma_cls a) ++ codes "]" else cls_name cl (ma_cls a).
Definition plain_attr (cl : list mcls) (a : mattr) : bool :=
  negb (ma_ref a && negb (str_eqb (cls_name cl (ma_cls a)) object_name)).

Definition dot_attr_line (cl : list mcls) (a : mattr) : list N :=
  if plain_attr cl a then
    ma_name a ++ codes ": "
    ++ (if mult_required (ma_mult a) then attr_type cl a else codes "optional" ++ bsl ++ codes "<" ++ attr_type cl a ++ bsl ++ codes ">")
    ++ bsl ++ codes "l"
  else [].

Definition dot_class (cl : list mcls) (k : nat) (c : mcls) : list N :=
  idtext k ++ codes "[ label=" ++ dq ++ codes "{"
  ++ (match mc_typ c with KAbstract => codes "*" ++ mc_name c | _ => mc_name c end)
  ++ codes "|"
  ++ (match mc_typ c with KAbstract => [] | _ => flat_map (dot_attr_line cl) (mc_attrs c) end)
  ++ codes "}" ++ dq ++ codes "]" ++ nl ++ nl.

Definition dot_link (cl : list mcls) (k : nat) (c : mcls) (a : mattr) (t : mcls) : list N :=
  idtext k ++ codes " -> " ++ idtext (ma_cls a) ++ codes "["
  ++ (if ma_cont a then codes "arrowtail=diamond, dir=both, " else [])
  ++ codes "headlabel=" ++ dq ++ ma_name a ++ codes " "
  ++ (match ma_mult a with M1 => [] | m => mult_text m end) ++ dq ++ codes "]" ++ nl.

Definition dot_inh (k : nat) (c : mcls) (j : nat) (t : mcls) : list N :=
  idtext k ++ codes " -> " ++ idtext j ++ codes " [dir=back]" ++ nl.

Definition dot_renderer : renderer := mkRenderer dot_class dot_link dot_inh.

(* rows of the match-rule table: name, html-escaped rule text (sorted by the renderer) *)
Definition dot_close : list N := nl ++ codes "}" ++ nl.
Definition dot_table (rows : list (list N * list N)) : list N :=
  match rows with
   | [] => []
   | _ => codes "match_rules [ shape=plaintext, label=< <table>" ++ nl
          ++ flat_map (fun r => [9%N] ++ codes "<tr>" ++ nl ++ [9; 9]%N ++ codes "<td><b>" ++ fst r ++ codes "</b></td><td>" ++ snd r
                                ++ codes "</td>" ++ nl ++ [9%N] ++ codes "</tr>" ++ nl) rows
          ++ codes "</table> >]" ++ nl ++ nl
   end.
Definition dot_trailer (rows : list (list N * list N)) : list N := dot_table rows ++ dot_close.

Definition mm_dot_doc (cl : list mcls) (rows : list (list N * list N)) : list N :=
  mm_doc cl dot_renderer export_header (dot_trailer rows).

(* ---------------------------------------------------------------- PlantUmlRenderer *)
Definition cls_fqn (cl : list mcls) (j : nat) : list N := match nth_error cl j with Some t => mc_fqn t | None => [] end.
Definition typ_text (k : rkind) : list N :=
  match k with KCommon => codes "common" | KAbstract => codes "abstract" | KMatch => codes "match" end.

Definition pu_attr_line (cl : list mcls) (a : mattr) : list N :=
  if plain_attr cl a then
    codes "  " ++ ma_name a ++ codes " : "
    ++ (if mult_required (ma_mult a) then attr_type cl a else codes "optional<" ++ attr_type cl a ++ codes ">") ++ nl
  else [].

Definition pu_class_open (c : mcls) : list N :=
  nl ++ nl ++ codes "class " ++ mc_fqn c ++ codes " "
  ++ (match mc_typ c with KCommon => [] | k => codes "<<" ++ typ_text k ++ codes ">>" end) ++ codes " {" ++ nl.

Definition pu_class (cl : list mcls) (k : nat) (c : mcls) : list N :=
  pu_class_open c
  ++ (match mc_typ c with KCommon => flat_map (pu_attr_line cl) (mc_attrs c) | _ => [] end)
  ++ codes "}" ++ nl.

Definition pu_link (cl : list mcls) (k : nat) (c : mcls) (a : mattr) (t : mcls) : list N :=
  mc_fqn c ++ codes " " ++ (if ma_cont a then codes "*-->" else codes "-->") ++ codes " "
  ++ (match ma_mult a with M1 => [] | m => dq ++ mult_text m ++ dq end) ++ codes " " ++ mc_fqn t ++ codes ": " ++ ma_name a ++ nl.

Definition pu_inh (k : nat) (c : mcls) (j : nat) (t : mcls) : list N :=
  mc_fqn c ++ codes " <|-- " ++ mc_fqn t ++ nl.

Definition pu_renderer : renderer := mkRenderer pu_class pu_link pu_inh.

Definition pu_start : list N := codes "@startuml" ++ nl.
Definition pu_end : list N := codes "@enduml" ++ nl.
Definition pu_header_rest (linetype : option (list N)) : list N :=
  codes "set namespaceSeparator ." ++ nl
  ++ (match linetype with Some l => codes "skinparam linetype " ++ l | None => [] end) ++ nl.
Definition pu_header (linetype : option (list N)) : list N := pu_start ++ pu_header_rest linetype.

(* rows of the legend: name, rule text (in the renderer's set order); the text goes through dot_escape *)
Definition pu_legend (rows : list (list N * list N)) : list N :=
  match rows with
   | [] => []
   | _ => nl ++ codes "legend" ++ nl ++ codes "  Match rules:" ++ nl ++ codes "  |= Name  |= Rule details |" ++ nl
          ++ flat_map (fun r => codes "  | " ++ fst r ++ codes " | " ++ dot_escape (snd r) ++ codes " |" ++ nl) rows
          ++ codes "end legend" ++ nl ++ nl
   end.
Definition pu_trailer (rows : list (list N * list N)) : list N := pu_legend rows ++ pu_end.

Definition mm_pu_doc (cl : list mcls) (linetype : option (list N)) (rows : list (list N * list N)) : list N :=
  mm_doc cl pu_renderer (pu_header linetype) (pu_trailer rows).
(* ---- PlantUML is line oriented: count the lines that start with '@' *)
Fixpoint at_lines (bol : bool) (s : list N) : nat :=
  match s with
  | [] => O
  | c :: s' => (if bol && N.eqb c 64 then 1 else 0) + at_lines (N.eqb c 10) s'
  end.
(* was the last character a newline (bol when nothing was read) *)
Fixpoint eol (bol : bool) (s : list N) : bool :=
  match s with
  | [] => bol
  | c :: s' => eol (N.eqb c 10) s'
  end.
(* names are identifiers (dotted for fqn), the linetype argument is a plain word *)
Definition names_ok (cl : list mcls) : bool :=
  forallb (fun c => forallb word_char (mc_name c) && forallb word_char (mc_fqn c)
                    && forallb (fun a => forallb word_char (ma_name a)) (mc_attrs c)) cl.
Definition rows_ok (rows : list (list N * list N)) : bool := forallb (fun r => forallb word_char (fst r)) rows.
Definition linetype_ok (lt : option (list N)) : bool := match lt with Some l => forallb plain_char l | None => true end.
(* the chain never produces a newline *)
Definition chain_nonl (chain : list (N * list N)) : bool :=
  forallb (fun x => forallb (fun c => negb (N.eqb c 10)) (esc1 chain x)) (10%N :: map fst chain).
