(* String combinators the translated __repr__ bodies of textx/scoping/rrel.py are written with
   (tools/translate/rrel_syntax_tr.py emits Gen/SrcRrelSyntax.v in terms of these).
   Each is the Python operation on str named in its comment. *)
From TxV Require Import Core.Base.

(* sep.join(l) *)
Fixpoint sjoin (sep : list N) (l : list (list N)) : list N :=
  match l with
  | [] => []
  | x :: l' => match l' with [] => x | _ :: _ => x ++ sep ++ sjoin sep l' end
  end.

(* s * n *)
Definition srep (s : list N) (n : nat) : list N := concat (repeat s n).

(* a in s   (substring test) *)
Fixpoint sin (a s : list N) : bool :=
  (is_prefix a s || match s with [] => false | _ :: s' => sin a s' end)%bool.

(* truth value of a str *)
Definition struth (s : list N) : bool := match s with [] => false | _ :: _ => true end.

(* l[0] of a list of printed children (the constructors guarantee a non-empty list) *)
Definition shd (l : list (list N)) : list N := hd [] l.

(* s.replace(a, b) for a non-empty a: leftmost non-overlapping occurrences *)
Fixpoint sreplace_fuel (fuel : nat) (a b s : list N) : list N :=
  match fuel with
  | O => s
  | S f =>
      match s with
      | [] => []
      | c :: s' => if is_prefix a s then b ++ sreplace_fuel f a b (skipn (length a) s)
                   else c :: sreplace_fuel f a b s'
      end
  end.
Definition sreplace (a b s : list N) : list N :=
  match a with [] => s | _ :: _ => sreplace_fuel (S (length s)) a b s end.

(* m[1:-1] *)
Definition strip_ends (m : list N) : list N := removelast (tl m).
