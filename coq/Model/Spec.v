(* Reference semantics of textX grammars ("the documented PEG semantics"), over the SAME dumped
   grammar table as Model/Peg.v, one clause per construct, written without the interpreter's
   quirks: no Python truthiness, no None/[None] conventions, no result caches, no mutable
   whitespace state (the whitespace context is passed down functionally).

   ordered choice  = the first alternative that succeeds
   optional        = the operand, else the empty match (never fails)
   repetition      = e (sep e)* greedy; an iteration that consumes nothing ends the loop;
                     eolterm removes "\n" "\r" from the whitespace set for the duration
   unordered group = repeatedly the first not-yet-used member that matches (sep between matches);
                     succeeds when every unused member matches emptily
   predicates      = succeed/fail on the operand, consume nothing, contribute nothing
   suppression     = consumed, contributes nothing ([SSup] keeps the consumed extent)
   terminals       = where skipws holds: whitespace, then (Comment, whitespace)*; then the literal /
                     regex (oracle) / end of input
   rule modifiers  = replace ws / skipws for everything reached from the rule, for the duration
   rule            = a node [SNT] around whatever its body contributes (also when that is nothing;
                     except `e?` / `e*` roots, see [wrap])
   start           = the top node (root rule followed by EOF) at position 0.
   No proofs here. *)
From TxV Require Import Core.Base Model.PegSyntax Model.Peg.

Inductive stree :=
| ST (nid pos len : nat) (sup : bool)       (* terminal match (sup = Terminal.suppress, as in Peg.T) *)
| SNT (nid : nat) (kids : list stree)       (* match of a rule *)
| SSup (kids : list stree).                 (* suppressed match *)

Inductive sres :=
| SOk (ts : list stree) (p : nat)
| SFail
| SOut.                                     (* out of fuel / ill-formed table *)

Record sctx := mkCtx { x_ws : list N; x_skip : bool; x_eol : bool; x_incmt : bool }.
Definition eff_ws (x : sctx) : list N := if x_eol x then strip_eol (x_ws x) else x_ws x.
Definition ctx_enter (nd : node) (x : sctx) : sctx :=
  mkCtx (match n_ws nd with Some w => w | None => x_ws x end)
        (match n_skipws nd with Some b => b | None => x_skip x end) (x_eol x) (x_incmt x).
Definition ctx_eol (nd : node) (x : sctx) : sctx :=
  if n_eolterm nd then mkCtx (x_ws x) (x_skip x) true (x_incmt x) else x.
Definition ctx_cmt (x : sctx) : sctx := mkCtx (x_ws x) (x_skip x) (x_eol x) true.

(* what the parse tree keeps: suppressed matches vanish *)
Fixpoint erase (t : stree) : list tree :=
  match t with
  | ST n p l s => [T n p l s]
  | SNT n kids => [NT n ((fix go (l : list stree) : list tree :=
                            match l with [] => [] | x :: l' => erase x ++ go l' end) kids)]
  | SSup _ => []
  end.
Definition erase_all (l : list stree) : list tree := flat_map erase l.

Section Spec.
Variable g : grammar.
Variable input : list N.
Variable orc : nat -> nat -> option nat.
(* [tsep] = true: the variant that keeps a trailing separator (the separator of an iteration whose
   element then fails stays in the result although it is given back) - Arpeggio's Repetition.  The
   documented semantics is [tsep] = false. *)
Variable tsep : bool.

Notation sparser := (nat -> bool -> sctx -> nat -> sres) (only parsing).

Definition sws (x : sctx) (p : nat) : nat := skip_ws_from (eff_ws x) (skipn p input) p.

(* (Comment whitespace)* *)
Fixpoint skip_cmts (rec : sparser) (cm : nat) (x : sctx) (k : nat) (p : nat) : option nat :=
  match k with
  | 0 => None
  | S k' =>
    match rec cm false (ctx_cmt x) p with
    | SOk _ p1 => skip_cmts rec cm x k' (sws x p1)
    | SFail => Some p
    | SOut => None
    end
  end.

Definition skip (rec : sparser) (k : nat) (x : sctx) (p : nat) : option nat :=
  if x_skip x then
    let p1 := sws x p in
    if x_incmt x then Some p1
    else match g_comments g with
         | None => Some p1
         | Some cm => skip_cmts rec cm x k p1
         end
  else Some p.

Definition term_match (nid : nat) (k : kind) (psq : bool) (p : nat) : sres :=
  match k with
  | KStr t None => if is_prefix t (skipn p input) then SOk [ST nid p (length t) psq] (p + length t) else SFail
  | KStr t (Some o) => match orc o p with Some _ => SOk [ST nid p (length t) psq] (p + length t) | None => SFail end
  | KRegex o => match orc o p with Some len => SOk [ST nid p len false] (p + len) | None => SFail end
  | KEOF => if Nat.eqb (length input) p then SOk [ST nid p 0 true] p else SFail
  | _ => SOut
  end.

(* all-or-nothing sequence *)
Fixpoint sseq (rec : sparser) (psq : bool) (x : sctx) (kids : list nat) (acc : list stree) (p : nat) : sres :=
  match kids with
  | [] => SOk acc p
  | c :: kids' =>
    match rec c psq x p with
    | SOk ts p1 => sseq rec psq x kids' (acc ++ ts) p1
    | SFail => SFail
    | SOut => SOut
    end
  end.

Fixpoint schoice (rec : sparser) (x : sctx) (kids : list nat) (p : nat) : sres :=
  match kids with
  | [] => SFail
  | c :: kids' =>
    match rec c false x p with
    | SOk ts p1 => SOk ts p1
    | SFail => schoice rec x kids' p
    | SOut => SOut
    end
  end.

(* e (sep e)*  ([plus]: at least one e) -- [first]: no iteration yet *)
Fixpoint srep (rec : sparser) (e : nat) (sep : option nat) (plus : bool) (x : sctx) (k : nat)
         (first : bool) (acc : list stree) (p : nat) : sres :=
  match k with
  | 0 => SOut
  | S k' =>
    let stop := if (plus && first)%bool then SFail else SOk acc p in
    let elem (sts : list stree) (p1 : nat) :=
        match rec e false x p1 with
        | SOk ts p2 => if Nat.ltb p p2 then srep rec e sep plus x k' false (acc ++ sts ++ ts) p2
                       else if (plus && first)%bool then SOk (acc ++ sts ++ ts) p2 else stop
        | SFail => if (plus && first)%bool then SFail else SOk (if tsep then acc ++ sts else acc) p
        | SOut => SOut
        end in
    match sep with
    | Some sp =>
      if first then elem [] p
      else match rec sp false x p with
           | SOk sts p1 => elem sts p1
           | SFail => stop
           | SOut => SOut
           end
    | None => elem [] p
    end
  end.

(* unordered group: first unused member that matches and consumes *)
Fixpoint sug_pick (rec : sparser) (x : sctx) (todo : list nat) (p : nat) : option (option (nat * list stree * nat)) :=
  match todo with
  | [] => Some None
  | e :: rest =>
    match rec e false x p with
    | SOk ts p1 => if Nat.ltb p p1 then Some (Some (e, ts, p1)) else sug_pick rec x rest p
    | SFail => sug_pick rec x rest p
    | SOut => None
    end
  end.
Fixpoint sug_rest (rec : sparser) (x : sctx) (todo : list nat) (p : nat) : sres :=
  match todo with
  | [] => SOk [] p
  | e :: rest =>
    match rec e false x p with
    | SOk _ _ => sug_rest rec x rest p
    | SFail => SFail
    | SOut => SOut
    end
  end.
Fixpoint sug (rec : sparser) (sep : option nat) (x : sctx) (n : nat) (todo : list nat) (first : bool)
         (acc : list stree) (p : nat) : sres :=
  match n with
  | 0 => SOut
  | S n' =>
    let finish := match sug_rest rec x todo p with SOk _ _ => SOk acc p | r => r end in
    let go (sts : list stree) (p1 : nat) :=
        match sug_pick rec x todo p1 with
        | None => SOut
        | Some None => finish
        | Some (Some (e, ts, p2)) => sug rec sep x n' (remove_first e todo) false (acc ++ sts ++ ts) p2
        end in
    match todo with
    | [] => SOk acc p
    | _ :: _ =>
      match sep with
      | Some sp =>
        if first then go [] p
        else match rec sp false x p with
             | SOk sts p1 => go sts p1
             | SFail => finish
             | SOut => SOut
             end
      | None => go [] p
      end
    end
  end.

Definition sbody (rec : sparser) (k : nat) (nd : node) (x : sctx) (p : nat) : sres :=
  match n_kind nd with
  | KSeq => sseq rec true (ctx_enter nd x) (n_kids nd) [] p
  | KChoice => schoice rec (ctx_enter nd x) (n_kids nd) p
  | KOpt =>
    match n_kids nd with
    | e :: _ => match rec e false x p with
                | SOk ts p1 => SOk ts p1
                | SFail => SOk [] p
                | SOut => SOut
                end
    | [] => SOut
    end
  | KStar =>
    match n_kids nd with
    | e :: _ => srep rec e (n_sep nd) false (ctx_eol nd x) k true [] p
    | [] => SOut
    end
  | KPlus =>
    match n_kids nd with
    | e :: _ => srep rec e (n_sep nd) true (ctx_eol nd x) k true [] p
    | [] => SOut
    end
  | KUnord =>
    match n_kids nd with
    | [] => SOut
    | _ :: _ => sug rec (n_sep nd) (ctx_eol nd x) (S (length (n_kids nd))) (n_kids nd) true [] p
    end
  | KAnd =>
    match sseq rec false x (n_kids nd) [] p with
    | SOk _ _ => SOk [] p
    | r => r
    end
  | KNot =>
    match sseq rec false x (n_kids nd) [] p with
    | SOk _ _ => SFail
    | SFail => SOk [] p
    | SOut => SOut
    end
  | KEmpty => SOk [] p
  | _ => SOut
  end.

(* A rule is a node around what its body contributes.  Roots that are an optional or a
   zero-or-more (the nodes of `a?=R` and `a*=R`, and rules whose whole body is `e?` / `e*`) exist
   only when they contribute something: `a?=R` assigns only if R matched, `a*=R` with no match
   assigns nothing. *)
Definition wrap (nid : nat) (nd : node) (ts : list stree) : list stree :=
  if n_suppress nd then [SSup ts]
  else if n_root nd then
    match n_kind nd, ts with
    | KOpt, [] | KStar, [] => []
    | _, _ => [SNT nid ts]
    end
  else ts.

Fixpoint seval (fuel : nat) (nid : nat) (psq : bool) (x : sctx) (p : nat) : sres :=
  match fuel with
  | 0 => SOut
  | S f =>
    match get_node g nid with
    | None => SOut
    | Some nd =>
      if is_match_kind (n_kind nd) then
        match skip (seval f) f x p with
        | None => SOut
        | Some p1 =>
          match term_match nid (n_kind nd) psq p1 with
          | SOk ts p2 => SOk (if n_suppress nd then [SSup ts] else ts) p2
          | r => r
          end
        end
      else
        match sbody (seval f) f nd x p with
        | SOk ts p1 => SOk (wrap nid nd ts) p1
        | r => r
        end
    end
  end.

End Spec.

Definition init_ctx (c : config) : sctx := mkCtx (c_ws c) (c_skipws c) false false.

Definition spec_run (g : grammar) (c : config) (orc : nat -> nat -> option nat) (fuel : nat)
           (input : list N) : sres :=
  seval g input orc false fuel (g_top g) false (init_ctx c) 0.
(* the same with the trailing-separator variant *)
Definition spec_run_q (g : grammar) (c : config) (orc : nat -> nat -> option nat) (fuel : nat)
           (input : list N) : sres :=
  seval g input orc true fuel (g_top g) false (init_ctx c) 0.

(* ---------------------------------------------------------------- extents (for C06) *)
(* consumed extent of a match: from the first to after the last non-empty terminal, suppressed
   matches included *)
Fixpoint sext (t : stree) : option (nat * nat) :=
  match t with
  | ST _ p len _ => if Nat.eqb len 0 then None else Some (p, p + len)
  | SNT _ kids | SSup kids =>
    (fix go (l : list stree) (acc : option (nat * nat)) : option (nat * nat) :=
       match l with
       | [] => acc
       | x :: l' => go l' (match acc, sext x with
                           | Some (a, _), Some (_, b) => Some (a, b)
                           | None, r => r
                           | a, None => a
                           end)
       end) kids None
  end.

(* ---------------------------------------------------------------- the class of the refinement theorem
   [prodb]: a successful match of the node always produces a node and consumes input (static,
   fuel-bounded analysis of the table; out of fuel = no). *)
Definition nonempty_s (s : list N) : bool := match s with [] => false | _ => true end.
Definition prod_nd (rec : nat -> bool) (nd : node) : bool :=
  negb (n_suppress nd) &&
  match n_kind nd with
  | KStr t _ => nonempty_s t
  | KRegex _ => true
  | KSeq => existsb rec (n_kids nd)
  | KChoice => match n_kids nd with [] => false | _ => forallb rec (n_kids nd) end
  | KPlus => match n_kids nd with e :: _ => rec e | [] => false end
  | _ => false
  end.
(* [prod_tbl g k]: the table after k rounds (round 0: nothing is productive) *)
Fixpoint prod_tbl (g : grammar) (k : nat) : list bool :=
  match k with
  | 0 => map (fun _ => false) (g_nodes g)
  | S k' => let t := prod_tbl g k' in map (prod_nd (fun c => nth c t false)) (g_nodes g)
  end.
Definition prodb (g : grammar) (pf : nat) (nid : nat) : bool := nth nid (prod_tbl g pf) false.

Definition opt_none {A} (o : option A) : bool := match o with None => true | Some _ => false end.

(* the constructs on which Model/Peg.v and this semantics provably agree; [pr] = productive.
   Inside the class: suppression anywhere (a suppressed node is not productive, so it cannot be a choice
   alternative or a repetition element), predicates that are not (live) rule roots, separators
   (with the trailing-separator variant [tsep]), rule-level ws/skipws on sequences and choices. *)
Definition live_root (nd : node) : bool := n_root nd && negb (n_suppress nd).
Definition mods_ok (nd : node) : bool :=
  match n_kind nd with
  | KSeq | KChoice => true
  | _ => opt_none (n_ws nd) && opt_none (n_skipws nd)
  end.
Definition sep_ok (g : grammar) (nd : node) : bool :=
  match n_sep nd with
  | None => true
  | Some sp =>
    match n_kind nd with
    | KStar | KPlus => Nat.ltb sp (length (g_nodes g))
    | _ => false
    end
  end.
(* eolterm on repetitions (it has no effect on an optional); inside an eolterm repetition a rule-level ws
   modifier is restored wrongly by the interpreter (the effective, newline-stripped set is written back as
   the real one), so a table with eolterm must not have rule-level ws at all ([eol_ws_ok], in [wfg]) *)
Definition eolk_ok (nd : node) : bool :=
  negb (n_eolterm nd) || match n_kind nd with KStar | KPlus | KOpt => true | _ => false end.
Definition node_ok (g : grammar) (pr : nat -> bool) (nd : node) : bool :=
  sep_ok g nd && eolk_ok nd && mods_ok nd &&
  forallb (fun c => Nat.ltb c (length (g_nodes g))) (n_kids nd) &&
  match n_kind nd with
  | KSeq => if live_root nd then prod_nd pr nd else true
  | KChoice => forallb pr (n_kids nd) && match n_kids nd with [] => false | _ => true end
  | KOpt => match n_kids nd with e :: _ => if live_root nd then pr e else true | [] => false end
  | KStar | KPlus => match n_kids nd with e :: _ => pr e | [] => false end
  | KStr t _ => nonempty_s t
  | KRegex _ | KEOF => true
  | KAnd | KNot | KEmpty => negb (live_root nd)
  | KUnord => false
  end.
Definition nows (g : grammar) : bool := forallb (fun nd => opt_none (n_ws nd)) (g_nodes g).
Definition eol_ws_ok (g : grammar) : bool := forallb (fun nd => negb (n_eolterm nd)) (g_nodes g) || nows g.
Definition wfg (g : grammar) (pf : nat) : bool :=
  (let t := prod_tbl g pf in forallb (node_ok g (fun c => nth c t false)) (g_nodes g)) && opt_none (g_comments g)
  && Nat.ltb (g_top g) (length (g_nodes g)) && eol_ws_ok g.
Definition orc_pos (orc : nat -> nat -> option nat) : Prop := forall o p n, orc o p = Some n -> 0 < n.

(* ---------------------------------------------------------------- the class with unordered groups
   An unordered group without separator (and without eolterm) all of whose members are productive: the
   interpreter and the reference clause agree - each round takes the first remaining member that matches,
   the group succeeds exactly when every member was matched once. *)
Definition ug_ok (g : grammar) (pr : nat -> bool) (nd : node) : bool :=
  match n_kind nd with
  | KUnord =>
    opt_none (n_sep nd) && negb (n_eolterm nd) && opt_none (n_ws nd) && opt_none (n_skipws nd) &&
    forallb (fun c => Nat.ltb c (length (g_nodes g))) (n_kids nd) &&
    match n_kids nd with [] => false | _ => true end && forallb pr (n_kids nd)
  | _ => false
  end.
Definition node_ok_u (g : grammar) (pr : nat -> bool) (nd : node) : bool := node_ok g pr nd || ug_ok g pr nd.
Definition wfgu (g : grammar) (pf : nat) : bool :=
  (let t := prod_tbl g pf in forallb (node_ok_u g (fun c => nth c t false)) (g_nodes g)) && opt_none (g_comments g)
  && Nat.ltb (g_top g) (length (g_nodes g)) && eol_ws_ok g.
