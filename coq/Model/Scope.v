(* Model of the provider selection in textx/model.py resolve_one_step. The precedence list
   and the shape of the selection statement come from Gen/SrcScope.v (translated). *)
From TxV Require Import Core.Base Model.ScopeDefs Gen.SrcScope Model.RrelSyntax.

Definition mk_key (cls attr : list N) (ps : list part) : list N :=
  flat_map (fun p => match p with PCls => cls | PAttr => attr | PLit s => s end) ps.

(* regs: the keys present in metamodel.scope_providers *)
Definition select (regs : list (list N)) (cls attr : list N) (has_rrel : bool) : choice :=
  if (grammar_provider_first && has_rrel)%bool then FromGrammar
  else match find (fun k => mem_str k regs) (map (mk_key cls attr) attr_refs) with
       | Some k => Registered k
       | None => Default
       end.

(* The documented precedence, written out. *)
Definition dot : list N := [46]%N.
Definition star : list N := [42]%N.
Definition spec (regs : list (list N)) (cls attr : list N) (has_rrel : bool) : choice :=
  if has_rrel then FromGrammar
  else if mem_str (cls ++ dot ++ attr) regs then Registered (cls ++ dot ++ attr)
  else if mem_str (star ++ dot ++ attr) regs then Registered (star ++ dot ++ attr)
  else if mem_str (cls ++ dot ++ star) regs then Registered (cls ++ dot ++ star)
  else if mem_str (star ++ dot ++ star) regs then Registered (star ++ dot ++ star)
  else Default.

(* A whole resolution pass: the references are visited in order; the provider of each one is selected
   from its own rule and attribute name.  (`selection_per_reference` is a translated fact: the key list
   is rebuilt and looked up in metamodel.scope_providers for every reference; were it false, the choice
   made for an attribute name would be remembered and reused for later references to that name.) *)
Fixpoint memo_find (attr : list N) (memo : list (list N * choice)) : option choice :=
  match memo with
  | [] => None
  | (a, c) :: r => if str_eqb a attr then Some c else memo_find attr r
  end.
Fixpoint select_pass (regs : list (list N)) (refs : list (list N * list N * bool)) (memo : list (list N * choice)) : list choice :=
  match refs with
  | [] => []
  | (cls, attr, has_rrel) :: r =>
      if selection_per_reference then select regs cls attr has_rrel :: select_pass regs r memo
      else if (grammar_provider_first && has_rrel)%bool then FromGrammar :: select_pass regs r memo
      else match memo_find attr memo with
           | Some c => c :: select_pass regs r memo
           | None => let c := select regs cls attr has_rrel in
                     c :: select_pass regs r (match c with Registered _ => (attr, c) :: memo | _ => memo end)
           end
  end.

(* Registration history: register_scope_providers may be called several times on one meta-model.  The keys
   in force are those of the LATEST call (`registration_replaces` is a translated fact: the method starts
   with `self.scope_providers = sp`; were it false the entries of a call would be added to the ones already
   there).  A fresh meta-model has no registered key. *)
Fixpoint active_keys (history : list (list (list N))) (acc : list (list N)) : list (list N) :=
  match history with
  | [] => acc
  | sp :: r => active_keys r (if registration_replaces then sp else sp ++ acc)
  end.

(* What a registration value denotes once registered / what a grammar RREL denotes.  The RREL parser is
   the one of Model/RrelSyntax.v (property C12). *)
Inductive provider := PCallable (id : nat) | PRrel (tree : RrelSyntax.expr) | PInvalid.
Inductive regvalue := RCallable (id : nat) | RString (text : list N).
Definition registered_provider (v : regvalue) : provider :=
  match v with
  | RCallable i => PCallable i
  | RString t => if string_registration_parsed_by_grammar_ctor
                 then match RrelSyntax.parse t with Some e => PRrel e | None => PInvalid end
                 else PCallable 0
  end.
Definition grammar_provider (tree : RrelSyntax.expr) : provider := PRrel tree.
