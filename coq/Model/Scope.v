(* Model of the provider selection in textx/model.py resolve_one_step. The precedence list
   and the shape of the selection statement come from Gen/SrcScope.v (translated). *)
From TxV Require Import Core.Base Model.ScopeDefs Gen.SrcScope.

Definition mk_key (cls attr : list N) (ps : list part) : list N :=
  flat_map (fun p => match p with PCls => cls | PAttr => attr | PLit s => s end) ps.

(* regs: the keys present in metamodel.scope_providers *)
Definition select (regs : list (list N)) (cls attr : list N) (has_rrel : bool) : choice :=
  if (grammar_provider_first && has_rrel)%bool then FromGrammar
  else match find (fun k => mem_str k regs) (map (mk_key cls attr) attr_refs) with
       | Some k => Registered k
       | None => Default
       end.

(* The documented precedence, written out. *)
Definition dot : list N := [46]%N.
Definition star : list N := [42]%N.
Definition spec (regs : list (list N)) (cls attr : list N) (has_rrel : bool) : choice :=
  if has_rrel then FromGrammar
  else if mem_str (cls ++ dot ++ attr) regs then Registered (cls ++ dot ++ attr)
  else if mem_str (star ++ dot ++ attr) regs then Registered (star ++ dot ++ attr)
  else if mem_str (cls ++ dot ++ star) regs then Registered (cls ++ dot ++ star)
  else if mem_str (star ++ dot ++ star) regs then Registered (star ++ dot ++ star)
  else Default.

(* What a registration value denotes once registered / what a grammar RREL denotes. *)
Inductive provider := PCallable (id : nat) | PRrel (tree : nat).
Inductive regvalue := RCallable (id : nat) | RString (text : nat).
Section Parse.
  Variable parse : nat -> nat.   (* rrel.parse: text -> tree (oracle; C12/C24 are about it) *)
  Definition registered_provider (v : regvalue) : provider :=
    match v with
    | RCallable i => PCallable i
    | RString t => if string_registration_parsed_by_grammar_ctor then PRrel (parse t) else PCallable 0
    end.
  Definition grammar_provider (tree : nat) : provider := PRrel tree.
End Parse.
