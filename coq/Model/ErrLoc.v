(* ErrLoc — locations carried by model-loading errors (C28) and by processor failures (C33).

   Transcribed from
     arpeggio/__init__.py  Parser.pos_to_linecol (2.0.3)
     textx/model.py        TextXModelParser._parse (syntax error), ReferenceResolver.resolve_one_step
                           (unknown object), parse_tree_to_objgraph (unresolvable cross references,
                           process_match / call_obj_processors dispatch), get_location, textxerror_wrap
     textx/scoping/providers.py  PlainName.__call__ (not unique), ImportURI.__call__
     textx/metamodel.py    TextXMetaModel.process (location enrichment)

   Executable definitions only; proofs are in Proofs/ErrLocProofs.v.  Which parser / which file name each
   error site uses, and which fields `process` fills, are DATA regenerated from the source on every run
   (Gen/SrcLoc.v, tools/translate/loc_tr.py); the functions below interpret that data. *)
From TxV Require Import Core.Base.

(* ------------------------------------------------------------------ pos_to_linecol *)

(* self.line_ends: the indices of every "\n" of self.input, ascending
   (input.index("\n"), then input.index("\n", last + 1) until ValueError) *)
Fixpoint line_ends_from (off : nat) (t : list N) : list nat :=
  match t with
  | [] => []
  | c :: r => if N.eqb c 10 then off :: line_ends_from (S off) r else line_ends_from (S off) r
  end.
Definition line_ends (t : list N) : list nat := line_ends_from 0 t.

(* bisect.bisect_left on an ascending list: the first index whose element is >= x *)
Fixpoint bisect_left (l : list nat) (x : nat) : nat :=
  match l with
  | [] => 0
  | a :: r => if a <? x then S (bisect_left r x) else 0
  end.

(* the same function as the binary search CPython runs (lo/hi halving); fuel = len(l) suffices *)
Fixpoint bisect_bs (fuel : nat) (l : list nat) (x lo hi : nat) : nat :=
  match fuel with
  | 0 => lo
  | S f => if lo <? hi then
             let mid := (lo + hi) / 2 in
             if nth mid l 0 <? x then bisect_bs f l x (S mid) hi else bisect_bs f l x lo mid
           else lo
  end.

Definition is_nl_cr (c : N) : bool := N.eqb c 10 || N.eqb c 13.

(*  line = bisect.bisect_left(self.line_ends, pos)
    col = pos
    if line > 0:
        col -= self.line_ends[line - 1]
        if self.input[self.line_ends[line - 1]] in '\n\r': col -= 1
    return line + 1, col + 1                                                     *)
Definition pos_to_linecol (t : list N) (pos : nat) : nat * nat :=
  let le := line_ends t in
  let line := bisect_left le pos in
  let col :=
    if 0 <? line then
      let e := nth (line - 1) le 0 in
      let c := pos - e in
      if is_nl_cr (nth e t 0%N) then c - 1 else c
    else pos in
  (line + 1, col + 1).

(* Independent statement of "line and column of offset pos": walk over the first pos characters,
   a "\n" starts a new line at column 1, any other character advances the column. *)
Fixpoint advance (t : list N) (n : nat) (line col : nat) : nat * nat :=
  match n with
  | 0 => (line, col)
  | S n' => match t with
            | [] => (line, col)
            | c :: r => if N.eqb c 10 then advance r n' (S line) 1 else advance r n' line (S col)
            end
  end.
Definition linecol_spec (t : list N) (pos : nat) : nat * nat := advance t pos 1 1.

(* ------------------------------------------------------------------ error records *)

(* one loaded model: its file name (_tx_filename / parser.file_name; None for strings) and the
   text its own parser holds (parser.input) *)
Record src := { s_name : option (list N); s_text : list N }.
Definition no_src : src := {| s_name := None; s_text := [] |}.
Definition file_at (fs : list src) (m : nat) : src := nth m fs no_src.

(* the location fields of a TextXError *)
Record errrec := { r_file : option (list N); r_line : option nat; r_col : option nat; r_nchar : option nat }.
Definition no_loc : errrec := {| r_file := None; r_line := None; r_col := None; r_nchar := None |}.

(* whose parser computes line/col, whose file name is reported (translated from the source) *)
Inductive whose :=
| OfRef        (* the model containing the offending text *)
| OfMain       (* the main model being loaded *)
| OfSearched   (* the model the scope provider was asked to search *)
| Nobody.      (* not given at all *)
Record locdesc := { d_parser : whose; d_file : whose }.

Definition pick (w : whose) (main ref searched : nat) : option nat :=
  match w with OfRef => Some ref | OfMain => Some main | OfSearched => Some searched | Nobody => None end.

Definition locate (fs : list src) (d : locdesc) (main ref searched pos : nat) : errrec :=
  let lc := match pick (d_parser d) main ref searched with
            | Some m => Some (pos_to_linecol (s_text (file_at fs m)) pos)
            | None => None
            end in
  {| r_file := match pick (d_file d) main ref searched with
               | Some m => s_name (file_at fs m)
               | None => None
               end;
     r_line := option_map fst lc; r_col := option_map snd lc; r_nchar := None |}.

(* the main model is index 0 of the file list *)
Definition main_ix : nat := 0.

(* syntax error in model m at offset pos (NoMatch.position): TextXModelParser._parse *)
Definition syntax_error (d : locdesc) (fs : list src) (m pos : nat) : errrec :=
  locate fs d main_ix m m pos.

(* unknown object: reference at offset pos of model m: ReferenceResolver.resolve_one_step *)
Definition unknown_error (d : locdesc) (fs : list src) (m pos : nat) : errrec :=
  locate fs d main_ix m m pos.

(* unresolvable cross references: the loop `for m in models: for delayed in m...delayed_crossrefs`
   assigns line/col (and, repaired, filename) on every iteration and appends "at (line, col)" to
   the message; the error carries the values of the LAST iteration.  delayed = (model, offset) in
   iteration order.  None = loop body never ran (cannot happen when unresolved_count > 0). *)
Definition unresolvable_error (d : locdesc) (fs : list src) (delayed : list (nat * nat))
  : option errrec * list (option nat * option nat) :=
  (fold_left (fun (_ : option errrec) x => Some (locate fs d main_ix (fst x) (fst x) (snd x))) delayed None,
   map (fun x => let r := locate fs d main_ix (fst x) (fst x) (snd x) in (r_line r, r_col r)) delayed).

(* name not unique: PlainName is asked to search model `searched` for the reference at offset pos of
   model m.  searched = m when the provider is called with the referencing object; ImportURI.__call__
   then calls it again with every imported model (via_import = true).  `relocates` = ImportURI
   re-locates an error raised while searching another model at the reference. *)
Definition nonunique_error (d : locdesc) (relocates : bool) (fs : list src) (m searched pos : nat) (via_import : bool) : errrec :=
  if via_import && relocates
  then locate fs {| d_parser := OfRef; d_file := OfRef |} main_ix m searched pos
  else locate fs d main_ix m searched pos.

(* ------------------------------------------------------------------ processors (C33) *)

Inductive field := FLine | FCol | FNchar | FFile.
Definition field_eqb (a b : field) : bool :=
  match a, b with FLine, FLine | FCol, FCol | FNchar, FNchar | FFile, FFile => true | _, _ => false end.
Definition has_field (f : field) (l : list field) : bool := existsb (field_eqb f) l.

Definition orelse {A} (a b : option A) : option A := match a with Some _ => a | None => b end.

(* TextXMetaModel.process, except branch: for each field f the source fills
   (`if e.f is None: e.f = f`), take the keyword argument when the error has none *)
Definition fill (fills : list field) (kw e : errrec) : errrec :=
  {| r_file := if has_field FFile fills then orelse (r_file e) (r_file kw) else r_file e;
     r_line := if has_field FLine fills then orelse (r_line e) (r_line kw) else r_line e;
     r_col := if has_field FCol fills then orelse (r_col e) (r_col kw) else r_col e;
     r_nchar := if has_field FNchar fills then orelse (r_nchar e) (r_nchar kw) else r_nchar e |}.

(* keyword arguments actually passed to process(): only the listed ones, the others keep their default None *)
Definition select (keys : list field) (loc : errrec) : errrec :=
  {| r_file := if has_field FFile keys then r_file loc else None;
     r_line := if has_field FLine keys then r_line loc else None;
     r_col := if has_field FCol keys then r_col loc else None;
     r_nchar := if has_field FNchar keys then r_nchar loc else None |}.

(* what the user's processor does *)
Inductive raised := Returns | RaisesTx (e : errrec) | RaisesOther.
(* what loading does *)
Inductive outcome := Loaded | Fails (e : errrec) | Propagates.

Definition mm_process (fills : list field) (kw : errrec) (r : raised) : outcome :=
  match r with
  | Returns => Loaded
  | RaisesTx e => Fails (fill fills kw e)
  | RaisesOther => Propagates
  end.

(* get_location(model_obj): parser and file name of the object's own model *)
Definition get_location (fs : list src) (m pos pos_end : nat) : errrec :=
  let lc := pos_to_linecol (s_text (file_at fs m)) pos in
  {| r_file := s_name (file_at fs m); r_line := Some (fst lc); r_col := Some (snd lc);
     r_nchar := Some (pos_end - pos) |}.

(* textxerror_wrap: a TextXError passes unchanged; anything else becomes a TextXError, located by
   get_location when the processed value is a model object (has _tx_position and _tx_filename) *)
Definition wrap (obj_loc : option errrec) (r : raised) : raised :=
  match r with
  | RaisesOther => RaisesTx (match obj_loc with Some l => l | None => no_loc end)
  | _ => r
  end.

(* call_obj_processors: metamodel.process(model_obj, name, **get_location(model_obj)) *)
Definition obj_dispatch (fills loc_keys : list field) (fs : list src) (m pos pos_end : nat)
           (wrapped : bool) (r : raised) : outcome :=
  let loc := get_location fs m pos pos_end in
  mm_process fills (select loc_keys loc) (if wrapped then wrap (Some (select loc_keys loc)) r else r).

(* process_match / process_node terminals:
   line, col = parser.pos_to_linecol(nt.position); metamodel.process(value, rule, filename=parser.file_name, line=line, col=col) *)
Definition match_dispatch (fills kw_keys : list field) (fs : list src) (m pos : nat)
           (wrapped : bool) (r : raised) : outcome :=
  let lc := pos_to_linecol (s_text (file_at fs m)) pos in
  let kw := {| r_file := s_name (file_at fs m); r_line := Some (fst lc); r_col := Some (snd lc); r_nchar := None |} in
  mm_process fills (select kw_keys kw) (if wrapped then wrap None r else r).
