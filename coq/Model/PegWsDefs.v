(* C22 - executable definitions only (no proofs): the position shift induced by an insertion,
   the decidable class [ins_wf] of (grammar, configuration, inserted text) and the decidable
   per-case "shifted oracle" check [shift_okb].  Evaluated by tools/props/c22.py on every case. *)
From TxV Require Import Core.Base Model.PegSyntax Model.Peg.

(* ---------------------------------------------------------------- position shift
   input = a ++ b, input' = a ++ ins ++ b, k = length a, n = length ins *)
Definition phi (k n p : nat) : nat := if Nat.ltb p k then p else p + n.

Fixpoint shift_tree (k n : nat) (t : tree) : tree :=
  match t with
  | T nid p len sup => T nid (phi k n p) len sup
  | NT nid kids => NT nid (map (shift_tree k n) kids)
  end.

Fixpoint shift_res (k n : nat) (r : res) : res :=
  match r with
  | RNone => RNone
  | RTree t => RTree (shift_tree k n t)
  | RList l => RList (map (shift_res k n) l)
  end.

(* "equal up to the position shift"; error positions are not part of the property *)
Definition outcome_shifted (k n : nat) (o o' : outcome) : Prop :=
  match o, o' with
  | Parsed r, Parsed r' => r' = shift_res k n r
  | SyntaxErr _, SyntaxErr _ => True
  | Aborted w, Aborted w' => w = w'
  | _, _ => False
  end.

(* ---------------------------------------------------------------- the class *)
Definition inw (w : list N) (c : N) : bool := existsb (N.eqb c) w.
Definition subset_ws (ins w : list N) : bool := forallb (inw w) ins.
Definition is_eol (c : N) : bool := (N.eqb c 10 || N.eqb c 13)%bool.
Definition noeol (ins : list N) : bool := forallb (fun c => negb (is_eol c)) ins.

(* a node never switches skipping off, never installs a whitespace set that lacks a character of
   the inserted text, and an eolterm repetition is only allowed when no line end is inserted *)
Definition node_ins_ok (ins : list N) (nd : node) : bool :=
  (match n_skipws nd with Some false => false | _ => true end
   && match n_ws nd with Some w => subset_ws ins w | None => true end
   && (if n_eolterm nd then noeol ins else true))%bool.

(* whitespace skipping is active, with a set containing [ins], in every mode the parser can be in *)
Definition ins_wf (g : grammar) (c : config) (ins : list N) : bool :=
  (c_skipws c && subset_ws ins (c_ws c) && forallb (node_ins_ok ins) (g_nodes g))%bool.

(* ---------------------------------------------------------------- terminals as partial functions
   matched length of a terminal of kind [kd] at position [p] *)
Definition tmatch (input : list N) (orc : nat -> nat -> option nat) (kd : kind) (p : nat) : option nat :=
  match kd with
  | KStr t None => if is_prefix t (skipn p input) then Some (length t) else None
  | KStr t (Some o) => match orc o p with Some _ => Some (length t) | None => None end
  | KRegex o => orc o p
  | KEOF => if Nat.eqb (length input) p then Some 0 else None
  | _ => None
  end.

Definition opt_nat_eqb (x y : option nat) : bool :=
  match x, y with
  | None, None => true
  | Some a, Some b => Nat.eqb a b
  | _, _ => false
  end.

(* the shifted-oracle hypothesis for one terminal kind at one position of the original input:
   same answer at the shifted position of the mutated input, the match stays inside the input and
   does not extend across the insertion point *)
Definition term_shift_at (input : list N) (orc : nat -> nat -> option nat)
           (input' : list N) (orc' : nat -> nat -> option nat) (k n : nat) (kd : kind) (p : nat) : bool :=
  (opt_nat_eqb (tmatch input' orc' kd (phi k n p)) (tmatch input orc kd p)
   && match tmatch input orc kd p with
      | Some len => Nat.leb (p + len) (length input) && (negb (Nat.ltb p k) || Nat.leb (p + len) k)
      | None => true
      end)%bool.

Definition term_shift_okb input orc input' orc' k n (kd : kind) : bool :=
  forallb (term_shift_at input orc input' orc' k n kd) (seq 0 (S (length input))).

Definition shift_okb (g : grammar) input orc input' orc' (k n : nat) : bool :=
  forallb (fun nd => if is_match_kind (n_kind nd)
                     then term_shift_okb input orc input' orc' k n (n_kind nd) else true) (g_nodes g).

Definition accepts (o : outcome) : bool := match o with Parsed _ => true | _ => false end.

(* ---------------------------------------------------------------- Comment-text insertion
   class: the Comment rule is a single regex terminal and no node changes the whitespace mode *)
Definition node_mode_free (nd : node) : bool :=
  match n_ws nd, n_skipws nd with
  | None, None => negb (n_eolterm nd)
  | _, _ => false
  end.

Definition cmt_oid (g : grammar) : option nat :=
  match g_comments g with
  | Some cm => match get_node g cm with
               | Some nd => match n_kind nd with KRegex o => Some o | _ => None end
               | None => None
               end
  | None => None
  end.

Definition cmt_wf (g : grammar) (c : config) : bool :=
  (c_skipws c && forallb node_mode_free (g_nodes g)
   && match cmt_oid g with Some _ => true | None => false end)%bool.

(* inserted text = w1 ++ c ++ w2: whitespace of the set, then a text that does not start with
   whitespace and that the Comment regex matches exactly at its place in the mutated input, then
   whitespace of the set *)
Definition cmt_ins_okb (g : grammar) (cfg : config) (orc' : nat -> nat -> option nat)
           (a w1 c w2 : list N) : bool :=
  (subset_ws w1 (c_ws cfg) && subset_ws w2 (c_ws cfg)
   && match c with c0 :: _ => negb (inw (c_ws cfg) c0) | [] => false end
   && match cmt_oid g with
      | Some oc => opt_nat_eqb (orc' oc (length a + length w1)) (Some (length c))
      | None => false
      end)%bool.

Definition not_aborted (o : outcome) : Prop := match o with Aborted _ => False | _ => True end.

(* ---------------------------------------------------------------- whole-run tiling (Proofs/PegGap.v) *)
(* every whitespace set the parser can ever have: the configured one and the rule-level ones *)
Definition all_ws (g : grammar) (cfg : config) : list N :=
  c_ws cfg ++ flat_map (fun nd => match n_ws nd with Some w => w | None => [] end) (g_nodes g).


(* the top node is Sequence(..., EOF), as textX builds it (decidable, checked per case) *)
Definition top_eof (g : grammar) : bool :=
  match get_node g (g_top g) with
  | Some nd =>
    match n_kind nd, rev (n_kids nd) with
    | KSeq, c :: _ => match get_node g c with
                      | Some ndc => match n_kind ndc with KEOF => true | _ => false end
                      | None => false
                      end
    | _, _ => false
    end
  | None => false
  end.

