(* C03 — rule kinds, inheritance lists, textx_isinstance and the result of abstract / match
   parse nodes.  Executable model only (proofs are in Proofs/KindsProofs.v).

   Transcribed from (textX, repaired tree):
     textx/lang.py      _determine_rule_types / _determine_rule_type / _has_nonmatch_ref /
                        _add_reffered_classes            (the multi-pass rule-kind fixpoint)
     textx/model.py     textx_isinstance / _textx_isinstance (visited set)
     textx/model.py     parse_tree_to_objgraph.process_node, abstract / match / common branch

   The grammar is the parser model AFTER _resolve_rule_refs: every rule reference is the
   referenced rule's root expression (root = True); a rule whose body is a single rule
   reference has become an alias of the referenced rule's expression
   (rule.rule_name <> cls.__name__).

   Gen/SrcKinds.v (regenerated from the source on every run by tools/translate/kinds_tr.py, which
   also compares the text of the transcribed functions) supplies the facts the model would
   otherwise hard-code: which branches set has_change, whether resolved_classes is emptied per
   pass, the test that picks the abstract result, the visited test of textx_isinstance. *)
From TxV Require Import Core.Base Gen.SrcKinds.

Inductive kind := KMatch | KAbstract | KCommon.

Definition kind_eqb (a b : kind) : bool :=
  match a, b with
  | KMatch, KMatch | KAbstract, KAbstract | KCommon, KCommon => true
  | _, _ => false
  end.

Definition is_match (k : kind) : bool := kind_eqb k KMatch.

(* Parsing expressions as far as the kind computation can tell them apart:
   Term   : a Match (StrMatch / RegExMatch), nodes = []
   Ref r  : the root expression of rule r (r.root = True)
   Seq    : Sequence (also the wrapper of a suppressed reference, UnorderedGroup): not an OrderedChoice
   Choice : OrderedChoice
   Opt e  : Optional / ZeroOrMore with nodes = [e]        (may match nothing)
   Plus e : OneOrMore with nodes = [e] *)
Inductive expr :=
| Term
| Ref (r : nat)
| Seq (es : list expr)
| Choice (es : list expr)
| Opt (e : expr)
| Plus (e : expr).

Inductive body :=
| Alias (t : nat)       (* the body was a single rule reference: _tx_peg_rule is rule t's expression *)
| Body (e : expr).      (* the rule's own root expression; its children are e's nodes *)

Record rule := { r_attrs : bool;        (* len(cls._tx_attrs) > 0 *)
                 r_body : body }.

Notation grammar := (list rule) (only parsing).

Definition default_rule : rule := {| r_attrs := false; r_body := Body Term |}.
Definition rule_of (g : list rule) (x : nat) : rule := nth x g default_rule.

(* ------------------------------------------------------------------ state *)
Record st := { types : nat -> kind;          (* cls._tx_type *)
               inh : nat -> list nat;        (* cls._tx_inh_by *)
               resolved : nat -> bool;       (* the per-pass resolved_classes set *)
               changed : bool;               (* has_change[0] *)
               oof : bool }.                 (* model artefact: fuel ran out *)

Definition upd {A} (f : nat -> A) (k : nat) (v : A) : nat -> A :=
  fun x => if Nat.eqb x k then v else f x.

Definition mark (x : nat) (s : st) : st :=
  {| types := types s; inh := inh s; resolved := upd (resolved s) x true; changed := changed s; oof := oof s |}.
(* does `cls._tx_type = k` come with `has_change[0] = True` in the source? *)
Definition sets_change (k : kind) : bool :=
  match k with KCommon => common_sets_change | KAbstract => abstract_sets_change | KMatch => false end.
Definition set_type (x : nat) (k : kind) (s : st) : st :=
  {| types := upd (types s) x k; inh := inh s; resolved := resolved s;
     changed := sets_change k || changed s; oof := oof s |}.
Definition set_inh (x : nat) (l : list nat) (s : st) : st :=
  {| types := types s; inh := upd (inh s) x l; resolved := resolved s; changed := changed s; oof := oof s |}.
Definition set_oof (s : st) : st :=
  {| types := types s; inh := inh s; resolved := resolved s; changed := changed s; oof := true |}.
Definition reset (s : st) : st :=
  {| types := types s; inh := inh s;
     resolved := if pass_resets_resolved then (fun _ => false) else resolved s;
     changed := false; oof := oof s |}.

Definition mem (x : nat) (l : list nat) : bool := existsb (Nat.eqb x) l.

(* _has_nonmatch_ref applied to the node list of e (for a reference: the test made on the
   child itself).  [det] is _determine_rule_type. *)
Fixpoint hnm (det : nat -> st -> st) (e : expr) (s : st) {struct e} : bool * st :=
  match e with
  | Term => (false, s)
  | Ref r => let s' := det r s in (negb (is_match (types s' r)), s')
  | Seq es | Choice es =>
      (fix go (l : list expr) (s : st) {struct l} : bool * st :=
         match l with
         | [] => (false, s)
         | x :: l' => let (b, s') := hnm det x s in if b then (true, s') else go l' s'
         end) es s
  | Opt e' | Plus e' => hnm det e' s
  end.

(* _add_reffered_classes(e, cls_x._tx_inh_by) for a child node e *)
Fixpoint addr (det : nat -> st -> st) (x : nat) (e : expr) (s : st) {struct e} : bool * st :=
  match e with
  | Term => (false, s)
  | Ref r =>
      let s' := det r s in
      if negb (is_match (types s' r)) && negb (mem r (inh s' x))
      then (true, set_inh x (inh s' x ++ [r]) s')     (* stop after first added/found type *)
      else (false, s')
  | Seq es =>                                           (* not an ordered choice: get out early *)
      (fix go (l : list expr) (s : st) {struct l} : bool * st :=
         match l with
         | [] => (false, s)
         | y :: l' => let (b, s') := addr det x y s in if b then (true, s') else go l' s'
         end) es s
  | Choice es =>                                        (* inh_added |= ... over all alternatives *)
      (fix go (l : list expr) (s : st) {struct l} : bool * st :=
         match l with
         | [] => (false, s)
         | y :: l' => let (b, s') := addr det x y s in
                      let (b', s'') := go l' s' in (b || b', s'')
         end) es s
  | Opt e' | Plus e' => addr det x e' s
  end.

Section Determine.
Variable g : list rule.

Fixpoint determine (fuel : nat) (x : nat) (s : st) {struct fuel} : st :=
  match fuel with
  | O => set_oof s
  | S f =>
      if resolved s x then s else
      let s0 := mark x s in
      if r_attrs (rule_of g x) then
        (if kind_eqb (types s0 x) KCommon then s0 else set_type x KCommon s0)
      else
        match r_body (rule_of g x) with
        | Alias t =>
            let s1 := determine f t s0 in
            if negb (is_match (types s1 t)) && negb (kind_eqb (types s1 x) KAbstract)
            then let s2 := set_type x KAbstract s1 in
                 if mem t (inh s2 x) then s2 else set_inh x (inh s2 x ++ [t]) s2
            else s1
        | Body e =>
            let (abstract, s1) := hnm (determine f) e s0 in
            if abstract && negb (kind_eqb (types s1 x) KAbstract)
            then snd (addr (determine f) x e (set_type x KAbstract s1))
            else s1
        end
  end.

Definition nrules : nat := length g.

(* one iteration of `while has_change[0]`: reset, then `for cls in metamodel` *)
Definition run_pass (s : st) : st :=
  fold_left (fun s x => determine (S nrules) x s) (seq 0 nrules) (reset s).

Fixpoint loop (k : nat) (s : st) : option st :=
  match k with
  | O => None
  | S k' => let s' := run_pass s in
            if oof s' then None else if changed s' then loop k' s' else Some s'
  end.

Definition init : st :=
  {| types := fun _ => KMatch; inh := fun _ => []; resolved := fun _ => false; changed := true; oof := false |}.

(* _determine_rule_types: None = the model ran out of fuel (excluded by C03_kinds) *)
Definition determine_types : option st := loop (S nrules) init.

(* number of iterations of `while has_change[0]` that are executed (0 = out of fuel) *)
Fixpoint passes_of (k : nat) (s : st) : nat :=
  match k with
  | O => 0
  | S k' => let s' := run_pass s in
            if oof s' then 0 else if changed s' then S (passes_of k' s') else 1
  end.

Definition pass_count : nat := passes_of (S nrules) init.

End Determine.

(* ------------------------------------------------------------------ textx_isinstance *)
(* _textx_isinstance(obj, cls_r, visited) for an object of class k.  Classes of one meta-model
   are unrelated Python classes, so isinstance(obj, cls) and the _tx_fqn test both mean k = r. *)
Fixpoint dfs (inhf : nat -> list nat) (fuel : nat) (k r : nat) (vis : nat -> bool) {struct fuel}
  : option (bool * (nat -> bool)) :=
  match fuel with
  | O => None
  | S f =>
      if Nat.eqb k r then Some (true, vis) else
      (fix go (l : list nat) (vis : nat -> bool) {struct l} : option (bool * (nat -> bool)) :=
         match l with
         | [] => Some (false, vis)
         | c :: l' =>
             if isinstance_visited && vis c then go l' vis else
             match dfs inhf f k c vis with
             | None => None
             | Some (true, v) => Some (true, v)
             | Some (false, v) => go l' v
             end
         end) (inhf r) (upd vis r true)
  end.

(* target None = OBJECT *)
Definition isinstance (n : nat) (inhf : nat -> list nat) (k : nat) (target : option nat) : option bool :=
  match target with
  | None => Some true
  | Some r => match dfs inhf (S n) k r (fun _ => false) with
              | None => None
              | Some (b, _) => Some b
              end
  end.

(* ------------------------------------------------------------------ building objects *)
(* Parse tree: TT = Terminal, TN r kids = NonTerminal of rule r's root expression,
   TA kids = NonTerminal of an assignment (rule names __asgn_plain etc.) with the right-hand-side nodes. *)
Inductive tree :=
| TT (txt : list N)
| TN (r : nat) (kids : list tree)
| TA (kids : list tree).

Inductive value :=
| VStr (s : list N)                       (* plain Python value *)
| VObj (cls : nat) (vals : list value)    (* instance of rule cls with the values it was assigned *)
| VNone.                                  (* the result of an assignment node itself *)

Fixpoint flat (t : tree) : list N :=
  match t with
  | TT s => s
  | TN _ kids | TA kids =>
      (fix go (l : list tree) : list N := match l with [] => [] | k :: l' => flat k ++ go l' end) kids
  end.

Definition flat_list (l : list tree) : list N := flat_map flat l.

(* `type(n) is not Terminal and n.rule._tx_class._tx_type != RULE_MATCH` *)
Definition nonmatch_node (K : nat -> kind) (t : tree) : bool :=
  match t with
  | TT _ => false
  | TN r _ => if abstract_pick_by_kind then negb (is_match (K r)) else true
  | TA _ => true
  end.

Fixpoint process (K : nat -> kind) (t : tree) {struct t} : value :=
  match t with
  | TT s => VStr s
  | TA _ => VNone
  | TN r kids =>
      match K r with
      | KMatch => VStr (flat t)
      | KAbstract =>
          match kids with
          | [] => VStr []
          | [k] => process K k
          | _ =>
              (fix pick (l : list tree) : value :=
                 match l with
                 | [] =>                                     (* no abstract / common rule node *)
                     (fix first_nt (m : list tree) : value :=
                        match m with
                        | [] => VStr (flat t)                (* all nodes are terminals: concatenation *)
                        | k :: m' => match k with TT _ => first_nt m' | _ => process K k end
                        end) kids                            (* only match rules: the first one *)
                 | k :: l' => if nonmatch_node K k then process K k else pick l'
                 end) kids
          end
      | KCommon =>
          VObj r ((fix vals (l : list tree) : list value :=
                     match l with
                     | [] => []
                     | TA ks :: l' =>
                         (fix each (m : list tree) : list value :=
                            match m with [] => [] | k :: m' => process K k :: each m' end) ks ++ vals l'
                     | _ :: l' => vals l'
                     end) kids)
      end
  end.

(* classes of all objects in a value *)
Fixpoint objs (v : value) : list nat :=
  match v with
  | VStr _ | VNone => []
  | VObj c vs => c :: (fix go (l : list value) : list nat := match l with [] => [] | x :: l' => objs x ++ go l' end) vs
  end.

(* ------------------------------------------------------------------ specification *)
(* rules referenced anywhere in an expression *)
Fixpoint refs (e : expr) : list nat :=
  match e with
  | Term => []
  | Ref r => [r]
  | Seq es | Choice es => (fix go (l : list expr) : list nat := match l with [] => [] | x :: l' => refs x ++ go l' end) es
  | Opt e' | Plus e' => refs e'
  end.

Definition body_refs (b : body) : list nat :=
  match b with Alias t => [t] | Body e => refs e end.

Definition rule_refs (g : list rule) (x : nat) : list nat := body_refs (r_body (rule_of g x)).

(* The documented definition: a rule with assignments is not a match rule; a rule that
   references a non-match rule is not a match rule; nothing else (least fixpoint). *)
Inductive nonmatch (g : list rule) : nat -> Prop :=
| nm_attrs x : r_attrs (rule_of g x) = true -> nonmatch g x
| nm_ref x y : In y (rule_refs g x) -> nonmatch g y -> nonmatch g x.

(* kind_spec g x k: k is the documented kind of rule x *)
Definition kind_spec (g : list rule) (x : nat) (k : kind) : Prop :=
  match k with
  | KCommon => r_attrs (rule_of g x) = true
  | KAbstract => r_attrs (rule_of g x) = false /\ exists y, In y (rule_refs g x) /\ nonmatch g y
  | KMatch => ~ nonmatch g x
  end.

(* K is reachable from R through references of abstract rules to non-match rules *)
Inductive reach (g : list rule) (K : nat -> kind) : nat -> nat -> Prop :=
| reach_refl x : reach g K x x
| reach_step x y z : K x = KAbstract -> In y (rule_refs g x) -> K y <> KMatch -> reach g K y z -> reach g K x z.

(* reachability in the recorded inheritance lists *)
Inductive ireach (inhf : nat -> list nat) : nat -> nat -> Prop :=
| ireach_refl x : ireach inhf x x
| ireach_step x y z : In y (inhf x) -> ireach inhf y z -> ireach inhf x z.

(* The documented lower bound: the rules that can be the first non-match reference of a match
   of the expression (an element that can match without producing a non-match node lets the
   following elements of a sequence through). *)
Fixpoint skippable (K : nat -> kind) (e : expr) : bool :=
  match e with
  | Term => true
  | Ref r => is_match (K r)
  | Seq es => (fix go (l : list expr) : bool := match l with [] => true | x :: l' => skippable K x && go l' end) es
  | Choice es => (fix go (l : list expr) : bool := match l with [] => false | x :: l' => skippable K x || go l' end) es
  | Opt _ => true
  | Plus e' => skippable K e'
  end.

Fixpoint firsts (K : nat -> kind) (e : expr) : list nat :=
  match e with
  | Term => []
  | Ref r => if is_match (K r) then [] else [r]
  | Seq es => (fix go (l : list expr) : list nat :=
                 match l with [] => [] | x :: l' => firsts K x ++ (if skippable K x then go l' else []) end) es
  | Choice es => (fix go (l : list expr) : list nat := match l with [] => [] | x :: l' => firsts K x ++ go l' end) es
  | Opt e' | Plus e' => firsts K e'
  end.

Definition rule_firsts (g : list rule) (K : nat -> kind) (x : nat) : list nat :=
  match r_body (rule_of g x) with
  | Alias t => if is_match (K t) then [] else [t]
  | Body e => firsts K e
  end.

(* objects of rule z can be the result of rule x *)
Inductive yields (g : list rule) (K : nat -> kind) : nat -> nat -> Prop :=
| yields_refl x : yields g K x x
| yields_step x y z : K x = KAbstract -> In y (rule_firsts g K x) -> yields g K y z -> yields g K x z.

(* rules of all NonTerminal nodes of a parse tree *)
Fixpoint node_rules (t : tree) : list nat :=
  match t with
  | TT _ => []
  | TN r kids => r :: (fix go (l : list tree) : list nat := match l with [] => [] | k :: l' => node_rules k ++ go l' end) kids
  | TA kids => (fix go (l : list tree) : list nat := match l with [] => [] | k :: l' => node_rules k ++ go l' end) kids
  end.

(* ------------------------------------------------------------------ well-formedness for complete inheritance lists *)
(* the expression holds a reference to a rule that is not a match rule *)
Definition has_nm (K : nat -> kind) (e : expr) : bool :=
  existsb (fun r => negb (is_match (K r))) (refs e).

(* no sequence has an element that holds a non-match reference, can nevertheless be skipped, and is
   followed by another element holding a non-match reference *)
Fixpoint seq_ok (K : nat -> kind) (e : expr) : bool :=
  match e with
  | Term | Ref _ => true
  | Seq es => (fix go (l : list expr) : bool :=
                 match l with
                 | [] => true
                 | x :: l' => seq_ok K x
                              && (if has_nm K x && skippable K x then negb (existsb (has_nm K) l') else true)
                              && go l'
                 end) es
  | Choice es => (fix go (l : list expr) : bool := match l with [] => true | x :: l' => seq_ok K x && go l' end) es
  | Opt e' | Plus e' => seq_ok K e'
  end.

(* wf_inh g K rank: no cycle through abstract rules (rank decreases along references between
   abstract rules) and every body of an abstract rule is seq_ok *)
Definition wf_inh (g : list rule) (K : nat -> kind) (rank : nat -> nat) : Prop :=
  (forall x y, K x = KAbstract -> In y (rule_refs g x) -> K y = KAbstract -> rank y < rank x) /\
  (forall x e, K x = KAbstract -> r_body (rule_of g x) = Body e -> seq_ok K e = true).

(* ------------------------------------------------------------------ the recorded lists, declaratively *)
(* _add_reffered_classes as a pure function of the final kinds: what _tx_inh_by holds when every
   kind the walk reads is already final (no state, no nested resolution) *)
Fixpoint walk (K : nat -> kind) (e : expr) (acc : list nat) {struct e} : bool * list nat :=
  match e with
  | Term => (false, acc)
  | Ref r => if negb (is_match (K r)) && negb (mem r acc) then (true, acc ++ [r]) else (false, acc)
  | Seq es =>
      (fix go (l : list expr) (acc : list nat) {struct l} : bool * list nat :=
         match l with
         | [] => (false, acc)
         | x :: l' => let (b, a1) := walk K x acc in if b then (true, a1) else go l' a1
         end) es acc
  | Choice es =>
      (fix go (l : list expr) (acc : list nat) {struct l} : bool * list nat :=
         match l with
         | [] => (false, acc)
         | x :: l' => let (b, a1) := walk K x acc in let (b', a2) := go l' a1 in (b || b', a2)
         end) es acc
  | Opt e' | Plus e' => walk K e' acc
  end.

Definition recorded (g : list rule) (K : nat -> kind) (x : nat) : list nat :=
  match r_body (rule_of g x) with
  | Alias t => if is_match (K t) then [] else [t]
  | Body e => snd (walk K e [])
  end.

Fixpoint list_nat_eqb (a b : list nat) : bool :=
  match a, b with
  | [], [] => true
  | x :: a', y :: b' => Nat.eqb x y && list_nat_eqb a' b'
  | _, _ => false
  end.

(* every abstract rule's recorded list is the pure walk of its body *)
Definition inh_is_recorded (g : list rule) (s : st) : bool :=
  forallb (fun x => match types s x with
                    | KAbstract => list_nat_eqb (inh s x) (recorded g (types s) x)
                    | _ => true
                    end) (seq 0 (length g)).

(* ------------------------------------------------------------------ exact specification of the recorded lists *)
(* no cycle through abstract rules: a rank decreases along references between abstract rules *)
Definition acyclic_abstract (g : list rule) (K : nat -> kind) (rank : nat -> nat) : Prop :=
  forall x y, K x = KAbstract -> In y (rule_refs g x) -> K y = KAbstract -> rank y < rank x.

(* the declarative closure of the recorded lists *)
Inductive recorded_reach (g : list rule) (K : nat -> kind) : nat -> nat -> Prop :=
| rreach_refl x : recorded_reach g K x x
| rreach_step x y z : K x = KAbstract -> In y (recorded g K x) -> recorded_reach g K y z -> recorded_reach g K x z.
