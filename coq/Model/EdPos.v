(* Model of the editor-support data of textx/model.py (textx_tools_support=True):

   - parse_tree_to_objgraph / process_node: every common-rule instance is registered in
     pos_rule_dict under (position, position_end) AFTER its children were processed
     (`pos_rule_dict.setdefault(pos, inst)`), non-containment references are collected as
     ObjCrossRef(position, position_end) in document order (parser._crossrefs);
   - ReferenceResolver.resolve_one_step: each reference the provider resolves appends a
     RefRulePosition(name, position, position_end, file/_tx_position/_tx_position_end of the
     target); postponed references stay pending; at the end of the step the list is sorted
     in place by ref_pos_start;
   - the outer loop `while unresolved_count > 0 and resolved_count > 0` over all models;
   - the final `OrderedDict(sorted(pos_rule_dict.items(), key=(-start, end)))`.

   The data-like facts (which position fills which RefRulePosition field, whether and by what
   the list is sorted, setdefault vs assignment, the sort key of the map) are not written here:
   they are the constants of Gen/SrcEdPos.v, regenerated from the source on every run.

   No proofs here (Proofs/EdPosProofs.v). *)
From TxV Require Import Core.Base Model.EdPosDefs Gen.SrcEdPos.

(* ---------------------------------------------------------------- parse trees *)
(* the part of a parse tree the builder looks at: nodes of common rules (objects) with their
   children, reference texts, and everything else (keywords, match-rule values) *)
Inductive node :=
| NObj (id : nat) (s e : N) (kids : list node)     (* common-rule instance spanning [s,e) *)
| NRef (id : nat) (s e : N) (name : list N)        (* reference text spanning [s,e), converted name *)
| NTok (s e : N).

Definition nstart (n : node) : N := match n with NObj _ s _ _ => s | NRef _ s _ _ => s | NTok s _ => s end.
Definition nend (n : node) : N := match n with NObj _ _ e _ => e | NRef _ _ e _ => e | NTok _ e => e end.

Record cref := { cid : nat; cstart : N; cend : N; cname : list N }.

(* objects in the order in which process_node registers them: children first *)
Fixpoint objs_post (n : node) : list (N * N * nat) :=
  match n with
  | NObj i s e kids => flat_map objs_post kids ++ [(s, e, i)]
  | _ => []
  end.

(* references in the order in which process_node collects them: document order *)
Fixpoint refs_pre (n : node) : list cref :=
  match n with
  | NObj _ _ _ kids => flat_map refs_pre kids
  | NRef i s e nm => [{| cid := i; cstart := s; cend := e; cname := nm |}]
  | NTok _ _ => []
  end.

(* all nodes of a tree, the tree itself first *)
Fixpoint subnodes (n : node) : list node :=
  n :: match n with NObj _ _ _ kids => flat_map subnodes kids | _ => [] end.

Definition kids_of (n : node) : list node := match n with NObj _ _ _ kids => kids | _ => [] end.

(* well-formed tree: children lie inside their parent, in document order, without overlap;
   a reference text is not empty.  Decidable, evaluated on every correspondence case. *)
Fixpoint wfb (n : node) : bool :=
  match n with
  | NObj _ s e kids =>
      N.leb s e &&
      (fix chain (lo : N) (ks : list node) : bool :=
         match ks with
         | [] => N.leb lo e
         | k :: r => wfb k && N.leb lo (nstart k) && chain (nend k) r
         end) s kids
  | NRef _ s e _ => N.ltb s e
  | NTok s e => N.leb s e
  end.

(* the same chain condition as a stand-alone function (used in statements) *)
Fixpoint chainb (lo hi : N) (ks : list node) : bool :=
  match ks with
  | [] => N.leb lo hi
  | k :: r => wfb k && N.leb lo (nstart k) && chainb (nend k) hi r
  end.

(* ---------------------------------------------------------------- position map *)
Notation item := (N * N * nat)%type (only parsing).   (* ((start, end), object) flattened *)

Definition ikey (x : N * N * nat) : N * N := fst x.
Definition key_eqb (a b : N * N) : bool := N.eqb (fst a) (fst b) && N.eqb (snd a) (snd b).
Definition has_key (k : N * N) (d : list (N * N * nat)) : bool := existsb (fun y => key_eqb k (ikey y)) d.

(* the registration statement of process_node: with setdefault the first object registered
   for a span stays, with an assignment the last one replaces it (same place in the dict) *)
Definition setdefault (d : list (N * N * nat)) (x : N * N * nat) : list (N * N * nat) :=
  if has_key (ikey x) d
  then match src_dict_register with
       | KeepFirst => d
       | Overwrite => map (fun y => if key_eqb (ikey y) (ikey x) then x else y) d
       end
  else d ++ [x].

Definition dict_raw (n : node) : list (N * N * nat) := fold_left setdefault (objs_post n) [].

(* the sort key of the final sorted(...): (start, end) compared lexicographically, each
   component in the direction found in the source ((-start, end) = (Desc, Asc)) *)
Definition dir_lt (o : order) (a b : N) : bool := match o with Asc => N.ltb a b | Desc => N.ltb b a end.
Definition dir_le (o : order) (a b : N) : bool := match o with Asc => N.leb a b | Desc => N.leb b a end.
Definition key_le (a b : N * N) : bool :=
  dir_lt (fst src_dict_order) (fst a) (fst b) ||
  (N.eqb (fst a) (fst b) && dir_le (snd src_dict_order) (snd a) (snd b)).

Fixpoint insert_item (x : N * N * nat) (l : list (N * N * nat)) : list (N * N * nat) :=
  match l with
  | [] => [x]
  | y :: r => if key_le (ikey x) (ikey y) then x :: l else y :: insert_item x r
  end.

(* stable sort (Python's sorted is stable; dict keys are distinct anyway) *)
Definition sort_items (l : list (N * N * nat)) : list (N * N * nat) := fold_right insert_item [] l.

Definition rule_dict (n : node) : list (N * N * nat) := sort_items (dict_raw n).

(* b contains a *)
Definition contains (b a : N * N) : Prop := (fst b <= fst a /\ snd a <= snd b)%N.

(* ---------------------------------------------------------------- reference list *)
(* the resolved object as the collection code sees it: the file of its model,
   _tx_position, _tx_position_end *)
Record target := { tfile : nat; tstart : N; tend : N }.

Inductive answer := Resolved (t : target) | Postponed | NotFound.

(* RefRulePosition (+ the identity of the reference it was made for) *)
Record entry := { e_ref : nat; e_name : list N; e_start : N; e_end : N;
                  e_file : nat; e_dstart : N; e_dend : N }.

Definition sel (p : possrc) (x : cref) (t : target) : N :=
  match p with RefStart => cstart x | RefEnd => cend x | TgtStart => tstart t | TgtEnd => tend t end.

(* the RefRulePosition(...) call, fields filled as the source does *)
Definition mk_entry (xt : cref * target) : entry :=
  let (x, t) := xt in
  {| e_ref := cid x; e_name := cname x;
     e_start := sel src_ref_pos_start x t; e_end := sel src_ref_pos_end x t;
     e_file := tfile t;
     e_dstart := sel src_def_pos_start x t; e_dend := sel src_def_pos_end x t |}.

(* a scope provider is any function of the reference and of the history of provider calls
   made so far in this load (most recent first): every postponement schedule *)
Definition provider := cref -> list nat -> answer.

Definition ekey (k : ekeysrc) (e : entry) : N :=
  match k with KRefStart => e_start e | KRefEnd => e_end e | KDefStart => e_dstart e | KDefEnd => e_dend e end.

Fixpoint insert_entry (x : entry) (l : list entry) : list entry :=
  match l with
  | [] => [x]
  | y :: r => if N.leb (ekey src_list_key x) (ekey src_list_key y) then x :: l else y :: insert_entry x r
  end.

(* list.sort(key=...), stable *)
Definition sort_entries_core (l : list entry) : list entry := fold_right insert_entry [] l.

(* the list is sorted at the end of every step only if the source does so unconditionally *)
Definition sort_entries (l : list entry) : list entry :=
  if src_list_sorted then sort_entries_core l else l.

(* metamodel.builtins fallback: after the collection, a reference the provider did not find is
   looked up by name in metamodel.builtins (and must be an instance of the reference's class) *)

(* the loop body of resolve_one_step over the pending references of one model:
   (history, entries appended in resolution order, delayed references, number resolved);
   None = neither the provider nor the builtins found anything (Unknown object).
   A reference resolved through the builtins counts as resolved but adds NO entry: the
   collection code runs before the fallback, on a provider result only. *)
Fixpoint step (ans : provider) (bi : cref -> bool) (pend : list cref) (h : list nat)
  : option (list nat * list entry * list cref * nat) :=
  match pend with
  | [] => Some (h, [], [], 0)
  | x :: r =>
      match ans x h with
      | NotFound =>
          if bi x then
            match step ans bi r (cid x :: h) with
            | Some (h', es, d, c) => Some (h', es, d, S c)
            | None => None
            end
          else None
      | Postponed =>
          match step ans bi r (cid x :: h) with
          | Some (h', es, d, c) => Some (h', es, x :: d, c)
          | None => None
          end
      | Resolved t =>
          match step ans bi r (cid x :: h) with
          | Some (h', es, d, c) => Some (h', mk_entry (x, t) :: es, d, S c)
          | None => None
          end
      end
  end.

(* one model under construction: pending references and its _pos_crossref_list *)
Notation mstate := (list cref * list entry)%type (only parsing).

(* one round of the outer loop over all models under construction, in model order *)
Fixpoint round (ans : provider) (bi : cref -> bool) (ms : list (list cref * list entry)) (h : list nat)
  : option (list nat * list (list cref * list entry) * nat) :=
  match ms with
  | [] => Some (h, [], 0)
  | (pend, lst) :: r =>
      match step ans bi pend h with
      | None => None
      | Some (h1, es, d, c) =>
          match round ans bi r h1 with
          | None => None
          | Some (h2, r', c') => Some (h2, (d, sort_entries (lst ++ es)) :: r', c + c')
          end
      end
  end.

Inductive outcome :=
| Ok (lists : list (list entry))
| Unresolvable (left : list (list cref))
| UnknownObject
| OutOfFuel.

Definition unresolved (ms : list (list cref * list entry)) : nat := length (concat (map fst ms)).

Fixpoint loop (fuel : nat) (ans : provider) (bi : cref -> bool) (ms : list (list cref * list entry)) (h : list nat) : outcome :=
  match fuel with
  | O => OutOfFuel
  | S f =>
      match round ans bi ms h with
      | None => UnknownObject
      | Some (h', ms', c) =>
          if (Nat.ltb 0 (unresolved ms') && Nat.ltb 0 c)%bool then loop f ans bi ms' h'
          else if Nat.ltb 0 (unresolved ms') then Unresolvable (map fst ms')
          else Ok (map snd ms')
      end
  end.

Definition load (ans : provider) (bi : cref -> bool) (models : list (list cref)) : outcome :=
  loop (S (length (concat models))) ans bi (map (fun rs => (rs, [])) models) [].

(* a whole load from the parse trees of the files *)
Definition load_trees (ans : provider) (bi : cref -> bool) (trees : list node) : outcome :=
  load ans bi (map refs_pre trees).

(* ---------------------------------------------------------------- models of a repository *)
(* get_included_models(model) filtered by hasattr(m, "_tx_reference_resolver"): a model that
   was completely loaded earlier (global repository) is not under construction; it takes no
   part in the rounds and keeps the list it got in its own load *)
Inductive gmodel := Fresh (rs : list cref) | Done (es : list entry).

Definition fresh_refs (gms : list gmodel) : list (list cref) :=
  flat_map (fun g => match g with Fresh rs => [rs] | Done _ => [] end) gms.

Fixpoint merge (gms : list gmodel) (outs : list (list entry)) : list (list entry) :=
  match gms with
  | [] => []
  | Done es :: r => es :: merge r outs
  | Fresh _ :: r => match outs with o :: outs' => o :: merge r outs' | [] => [] :: merge r [] end
  end.

Definition load_repo (ans : provider) (bi : cref -> bool) (gms : list gmodel) : outcome :=
  match load ans bi (fresh_refs gms) with
  | Ok outs => Ok (merge gms outs)
  | o => o
  end.

(* the table provider of the correspondence harness: reference i answers Postponed on its first
   delay(i) calls, then its target (or "not found" when the table gives none) *)
Definition table_ans (tbl : list (nat * (nat * option target))) : provider := fun x h =>
  match find (fun kv => Nat.eqb (fst kv) (cid x)) tbl with
  | None => NotFound
  | Some (_, (d, ot)) =>
      if Nat.ltb (count_occ Nat.eq_dec h (cid x)) d then Postponed
      else match ot with Some t => Resolved t | None => NotFound end
  end.
