(* Model of the user-class machinery of textx/model.py (C14, C15):

   - the temporary replacement of __setattr__/__delattr__/__getattribute__ on user classes
     (_replace_user_attr_methods[_for_class], _restore_user_attr_methods), reference-counted by
     `_tx_instrumented` over all parsers that are building a model;
   - the per-object attribute storage `_tx_obj_attrs` (allocation in process_node, pop in
     _end_model_construction, _discard_user_obj_attrs on the failure paths);
   - the load procedure (get_model_from_str / parse_tree_to_objgraph / _end_model_construction)
     as a state machine over operations, one operation per observable code point, with nested
     loads: imported models (frames of one load context) and complete loads started from
     callbacks while another load is running (a stack of contexts);
   - the event log (allocation, resolution, __init__, processors) for the ordering statements;
   - the metamodel-global model repository as far as failing loads are concerned.

   All user classes of a metamodel are replaced/restored together by every parser, so one
   class state stands for each of them.  No proofs here. *)
From TxV Require Import Core.Base.

(* ------------------------------------------------------------------ class __dict__ slots *)
Inductive slot := Absent | UserFn (k : nat) | TxFn.

Definition slot_eqb (a b : slot) : bool :=
  match a, b with
  | Absent, Absent => true
  | UserFn x, UserFn y => Nat.eqb x y
  | TxFn, TxFn => true
  | _, _ => false
  end.

Definition upd {A} (f : list N -> A) (k : list N) (v : A) : list N -> A :=
  fun x => if str_eqb x k then v else f x.

(* class state: the dunder entries of the class __dict__ by method name ("setattr", ...),
   the `_tx_real_<name>` attributes (None = attribute absent), `_tx_instrumented`
   (0 = attribute absent) and the keys of `_tx_obj_attrs` in insertion order *)
Record cls := {
  k_count : nat;
  k_dict : list N -> slot;
  k_saved : list N -> option slot;
  k_store : list nat
}.

(* ------------------------------------------------------------------ attribute access *)
(* Which code acts when an attribute of object x of the class is set / read / deleted
   (the replacement functions _setattr / _getattribute / _delattr of
   _replace_user_attr_methods_for_class when they are installed, else the class's own entry):
   the per-object storage, the method the user class defines itself, or the inherited (object)
   behaviour.  `hit` = the name is a key of the object's storage dict. *)
Inductive target := ToStorage | ToUser (k : nat) | ToBase.
Definition of_slot (s : slot) : target := match s with UserFn u => ToUser u | _ => ToBase end.
Definition of_saved (o : option slot) : target := match o with Some s => of_slot s | None => ToBase end.
Definition stored (k : cls) (x : nat) : bool := existsb (Nat.eqb x) (k_store k).
Definition n_setattr : list N := [115; 101; 116; 97; 116; 116; 114]%N.
Definition n_delattr : list N := [100; 101; 108; 97; 116; 116; 114]%N.
Definition n_getattribute : list N := [103; 101; 116; 97; 116; 116; 114; 105; 98; 117; 116; 101]%N.

(* _setattr: storage of an object under construction, else _tx_real_setattr with the object,
   else super().__setattr__ *)
Definition acting_set (k : cls) (x : nat) : target :=
  match k_dict k n_setattr with
  | TxFn => if stored k x then ToStorage else of_saved (k_saved k n_setattr)
  | s => of_slot s
  end.
(* _getattribute: a storage hit; on a miss an object under construction gets the inherited lookup,
   any other object _tx_real_getattribute *)
Definition acting_get (k : cls) (x : nat) (hit : bool) : target :=
  match k_dict k n_getattribute with
  | TxFn => if stored k x then (if hit then ToStorage else ToBase) else of_saved (k_saved k n_getattribute)
  | s => of_slot s
  end.
(* _delattr: pops a stored name; a KeyError (object not stored OR name not stored) goes to
   _tx_real_delattr / super().__delattr__ *)
Definition acting_del (k : cls) (x : nat) (hit : bool) : target :=
  match k_dict k n_delattr with
  | TxFn => if stored k x && hit then ToStorage else of_saved (k_saved k n_delattr)
  | s => of_slot s
  end.

Section Methods.
  (* the method-name tuples of the source (Gen/SrcUserCls.v) *)
  Variable rep_names : list (list N).   (* replaced by _replace_user_attr_methods_for_class *)
  Variable res_names : list (list N).   (* visited by _restore_user_attr_methods *)

  (* for a_name in rep_names: _tx_real_<a> = cls.__dict__.get(__a__); cls.__a__ = replacement *)
  Definition install1 (ds : (list N -> slot) * (list N -> option slot)) (a : list N) :=
    (upd (fst ds) a TxFn, upd (snd ds) a (Some (fst ds a))).
  Definition install (d : list N -> slot) (sv : list N -> option slot) :=
    fold_left install1 rep_names (d, sv).

  (* for a_name in res_names: if hasattr(_tx_real_<a>): set or delete __a__; delattr(_tx_real_<a>) *)
  Definition uninstall1 (ds : (list N -> slot) * (list N -> option slot)) (a : list N) :=
    match snd ds a with
    | Some v => (upd (fst ds) a v, upd (snd ds) a None)
    | None => ds
    end.
  Definition uninstall (d : list N -> slot) (sv : list N -> option slot) :=
    fold_left uninstall1 res_names (d, sv).

  (* _replace_user_attr_methods, one class *)
  Definition cls_replace (k : cls) : cls :=
    match k_count k with
    | 0 => let ds := install (k_dict k) (k_saved k) in
           {| k_count := 1; k_dict := fst ds; k_saved := snd ds; k_store := k_store k |}
    | S n => {| k_count := S (S n); k_dict := k_dict k; k_saved := k_saved k; k_store := k_store k |}
    end.

  (* _restore_user_attr_methods, one class that this parser has replaced *)
  Definition cls_restore (k : cls) : cls :=
    match k_count k with
    | 0 => k                                   (* not hasattr(_tx_instrumented) *)
    | 1 => let ds := uninstall (k_dict k) (k_saved k) in
           {| k_count := 0; k_dict := fst ds; k_saved := snd ds; k_store := k_store k |}
    | S n => {| k_count := n; k_dict := k_dict k; k_saved := k_saved k; k_store := k_store k |}
    end.

  Definition remove_id (x : nat) (l : list nat) : list nat := filter (fun y => negb (Nat.eqb y x)) l.
  Definition remove_ids (xs : list nat) (l : list nat) : list nat :=
    filter (fun y => negb (existsb (Nat.eqb y) xs)) l.

  Definition cls_alloc (x : nat) (k : cls) : cls :=
    {| k_count := k_count k; k_dict := k_dict k; k_saved := k_saved k; k_store := k_store k ++ [x] |}.
  Definition cls_pop (x : nat) (k : cls) : cls :=
    {| k_count := k_count k; k_dict := k_dict k; k_saved := k_saved k; k_store := remove_id x (k_store k) |}.
  Definition cls_discard (xs : list nat) (k : cls) : cls :=
    {| k_count := k_count k; k_dict := k_dict k; k_saved := k_saved k; k_store := remove_ids xs (k_store k) |}.

  (* ---------------------------------------------------------------- the load machine *)
  (* one parser (one model being built): the classes it has replaced and not yet restored
     (_user_classes_replaced non-empty), its allocated user objects (_user_class_alloc), the
     objects whose children are still being built (the user objects on _inst_stack) and the
     completed ones in __init__ order (_user_class_inst) *)
  Record frame := {
    f_id : nat;
    f_replaced : bool;
    f_alloc : list nat;
    f_ostack : list nat;
    f_inst : list nat
  }.

  Inductive phase :=
  | Loading                         (* parsing/building the main model and its imported models *)
  | Ending (cur : list nat)         (* references resolved; cur = objects of the model ended last still to initialise *)
  | Processing.                     (* object processors *)

  Inductive ekind :=
  | KSyntax (c : nat)                          (* syntax error *)
  | KAlloc (c m o : nat) (parent : option nat) (* user_class.__new__ in process_node *)
  | KResolved (c : nat)                        (* all references of the load resolved *)
  | KInit (c o : nat)                          (* obj.__init__ with the collected attributes *)
  | KProc (c : nat)                            (* an object processor of a common rule *)
  | KFail (c : nat)                            (* the load raised *)
  | KFinish (c : nat).                         (* the load returned *)
  (* an event with the class state seen by the callback: _tx_instrumented and len(_tx_obj_attrs) *)
  Record event := { e_kind : ekind; e_count : nat; e_store : nat; e_cls : cls }.

  (* one complete (main) load *)
  Record ctx := {
    c_id : nat;
    c_global : bool;                (* the metamodel keeps a global model repository *)
    c_frames : list frame;          (* models under construction, repository order (main first) *)
    c_phase : phase;
    c_mids : list nat;              (* ghost: every model of this load *)
    c_objs : list nat;              (* ghost: every user object allocated by this load *)
    c_trace : list ekind            (* ghost: the events of this load, newest first *)
  }.

  Record state := {
    s_cls : cls;
    s_ctxs : list ctx;              (* innermost first *)
    s_repo : list nat;              (* models in a metamodel-global repository *)
    s_next : nat;                   (* fresh ids (contexts, models, objects) *)
    s_log : list event              (* newest first *)
  }.

  Inductive op :=
  | Begin (main glob syn_ok : bool)   (* get_model_from_str up to _replace_user_attr_methods *)
  | Alloc                             (* process_node allocates a user object *)
  | Complete                          (* ... and has processed its children *)
  | ResolveOk                         (* the resolution loop ended without unresolved references *)
  | EndModel                          (* _end_model_construction of the next model: restore *)
  | Init (ok : bool)                  (* ... pop storage, setattr, __init__ of its next object *)
  | Proc (ok : bool)                  (* an object processor call *)
  | Fail                              (* an exception at the current point of the current load *)
  | Finish.                           (* get_model_from_str returns *)

  Definition ev (k : ekind) (c : cls) : event :=
    {| e_kind := k; e_count := k_count c; e_store := length (k_store c); e_cls := c |}.

  Definition set_ctxs (s : state) (cs : list ctx) : state :=
    {| s_cls := s_cls s; s_ctxs := cs; s_repo := s_repo s; s_next := s_next s; s_log := s_log s |}.

  (* restore + discard of one parser on a failure path *)
  Definition abort_frame (k : cls) (f : frame) : cls :=
    cls_discard (f_alloc f) (if f_replaced f then cls_restore k else k).

  Definition phase_cur (p : phase) : list nat := match p with Ending cur => cur | _ => [] end.

  (* the load `c` (head of the context stack) raises: every model under construction is aborted
     (imported ones by _abort_user_class_construction, the raising ones by the handler of their
     own get_model_from_str), the models leave the repositories *)
  Definition fail_ctx (s : state) (c : ctx) (rest : list ctx) : state :=
    let k := cls_discard (phase_cur (c_phase c)) (fold_left abort_frame (c_frames c) (s_cls s)) in
    {| s_cls := k; s_ctxs := rest;
       s_repo := remove_ids (c_mids c) (s_repo s);
       s_next := s_next s;
       s_log := ev (KFail (c_id c)) k :: s_log s |}.

  Definition new_frame (id : nat) : frame :=
    {| f_id := id; f_replaced := true; f_alloc := []; f_ostack := []; f_inst := [] |}.

  Definition alloc_frame (x : nat) (f : frame) : frame :=
    {| f_id := f_id f; f_replaced := f_replaced f; f_alloc := f_alloc f ++ [x];
       f_ostack := x :: f_ostack f; f_inst := f_inst f |}.
  Definition complete_frame (f : frame) : frame :=
    match f_ostack f with
    | x :: st => {| f_id := f_id f; f_replaced := f_replaced f; f_alloc := f_alloc f;
                    f_ostack := st; f_inst := f_inst f ++ [x] |}
    | [] => f
    end.

  (* the innermost model still being built is the last frame *)
  Fixpoint on_last (g : frame -> frame) (fs : list frame) : list frame :=
    match fs with
    | [] => []
    | [f] => [g f]
    | f :: fs' => f :: on_last g fs'
    end.
  Definition last_frame (fs : list frame) : option frame := last (map Some fs) None.

  Definition step (s : state) (o : op) : state :=
    match o with
    | Begin main glob syn_ok =>
        let n := s_next s in
        (* the context the new parser belongs to *)
        let ctxs := if main then {| c_id := n; c_global := glob; c_frames := []; c_phase := Loading;
                                    c_mids := []; c_objs := []; c_trace := [] |} :: s_ctxs s
                    else s_ctxs s in
        match ctxs with
        | [] => s
        | c :: rest =>
            match c_phase c with
            | Loading =>
                if syn_ok then
                  let k := cls_replace (s_cls s) in
                  let c' := {| c_id := c_id c; c_global := c_global c;
                               c_frames := c_frames c ++ [new_frame (S n)];
                               c_phase := Loading; c_mids := c_mids c ++ [S n]; c_objs := c_objs c; c_trace := c_trace c |} in
                  {| s_cls := k; s_ctxs := c' :: rest;
                     s_repo := if c_global c then s_repo s ++ [S n] else s_repo s;
                     s_next := S (S n); s_log := s_log s |}
                else
                  (* the parser replaced nothing; its restore is a no-op; the exception unwinds the load *)
                  let s1 := {| s_cls := s_cls s; s_ctxs := ctxs; s_repo := s_repo s; s_next := S (S n);
                               s_log := ev (KSyntax (c_id c)) (s_cls s) :: s_log s |} in
                  fail_ctx s1 c rest
            | _ => s
            end
        end
    | Alloc =>
        match s_ctxs s with
        | c :: rest =>
            match c_phase c, last_frame (c_frames c) with
            | Loading, Some f =>
                let x := s_next s in
                let c' := {| c_id := c_id c; c_global := c_global c; c_frames := on_last (alloc_frame x) (c_frames c);
                             c_phase := Loading; c_mids := c_mids c; c_objs := c_objs c ++ [x]; c_trace := KAlloc (c_id c) (f_id f) x (hd_error (f_ostack f)) :: c_trace c |} in
                {| s_cls := cls_alloc x (s_cls s); s_ctxs := c' :: rest; s_repo := s_repo s; s_next := S x;
                   s_log := ev (KAlloc (c_id c) (f_id f) x (hd_error (f_ostack f))) (s_cls s) :: s_log s |}
            | _, _ => s
            end
        | [] => s
        end
    | Complete =>
        match s_ctxs s with
        | c :: rest =>
            match c_phase c with
            | Loading =>
                let c' := {| c_id := c_id c; c_global := c_global c; c_frames := on_last complete_frame (c_frames c);
                             c_phase := Loading; c_mids := c_mids c; c_objs := c_objs c; c_trace := c_trace c |} in
                set_ctxs s (c' :: rest)
            | _ => s
            end
        | [] => s
        end
    | ResolveOk =>
        match s_ctxs s with
        | c :: rest =>
            match c_phase c with
            | Loading =>
                let c' := {| c_id := c_id c; c_global := c_global c; c_frames := c_frames c;
                             c_phase := Ending []; c_mids := c_mids c; c_objs := c_objs c; c_trace := KResolved (c_id c) :: c_trace c |} in
                {| s_cls := s_cls s; s_ctxs := c' :: rest; s_repo := s_repo s; s_next := s_next s;
                   s_log := ev (KResolved (c_id c)) (s_cls s) :: s_log s |}
            | _ => s
            end
        | [] => s
        end
    | EndModel =>
        match s_ctxs s with
        | c :: rest =>
            match c_phase c, c_frames c with
            | Ending [], f :: fs =>
                match f_ostack f with
                | [] =>
                    let k := if f_replaced f then cls_restore (s_cls s) else s_cls s in
                    let c' := {| c_id := c_id c; c_global := c_global c; c_frames := fs;
                                 c_phase := Ending (f_inst f); c_mids := c_mids c; c_objs := c_objs c; c_trace := c_trace c |} in
                    {| s_cls := k; s_ctxs := c' :: rest; s_repo := s_repo s; s_next := s_next s; s_log := s_log s |}
                | _ => s
                end
            | _, _ => s
            end
        | [] => s
        end
    | Init ok =>
        match s_ctxs s with
        | c :: rest =>
            match c_phase c with
            | Ending (x :: cur) =>
                let k := cls_pop x (s_cls s) in
                let c' := {| c_id := c_id c; c_global := c_global c; c_frames := c_frames c;
                             c_phase := Ending cur; c_mids := c_mids c; c_objs := c_objs c; c_trace := KInit (c_id c) x :: c_trace c |} in
                let s1 := {| s_cls := k; s_ctxs := c' :: rest; s_repo := s_repo s; s_next := s_next s;
                             s_log := ev (KInit (c_id c) x) k :: s_log s |} in
                if ok then s1 else fail_ctx s1 c' rest
            | _ => s
            end
        | [] => s
        end
    | Proc ok =>
        match s_ctxs s with
        | c :: rest =>
            match c_phase c, c_frames c with
            | Ending [], [] | Processing, [] =>
                let c' := {| c_id := c_id c; c_global := c_global c; c_frames := c_frames c;
                             c_phase := Processing; c_mids := c_mids c; c_objs := c_objs c; c_trace := KProc (c_id c) :: c_trace c |} in
                let s1 := {| s_cls := s_cls s; s_ctxs := c' :: rest; s_repo := s_repo s; s_next := s_next s;
                             s_log := ev (KProc (c_id c)) (s_cls s) :: s_log s |} in
                if ok then s1 else fail_ctx s1 c' rest
            | _, _ => s
            end
        | [] => s
        end
    | Fail =>
        match s_ctxs s with
        | c :: rest => fail_ctx s c rest
        | [] => s
        end
    | Finish =>
        match s_ctxs s with
        | c :: rest =>
            match c_phase c, c_frames c with
            | Ending [], [] | Processing, [] =>
                {| s_cls := s_cls s; s_ctxs := rest; s_repo := s_repo s; s_next := s_next s;
                   s_log := ev (KFinish (c_id c)) (s_cls s) :: s_log s |}
            | _, _ => s
            end
        | [] => s
        end
    end.

  Definition run (s : state) (ops : list op) : state := fold_left step ops s.

  (* a class before any load: its own dunder entries d0, nothing of textX on it *)
  Definition cls0 (d0 : list N -> slot) : cls :=
    {| k_count := 0; k_dict := d0; k_saved := fun _ => None; k_store := [] |}.
  Definition init (d0 : list N -> slot) : state :=
    {| s_cls := cls0 d0; s_ctxs := []; s_repo := []; s_next := 0; s_log := [] |}.

  (* "behaves exactly as before loading" *)
  Definition cls_same (d0 : list N -> slot) (k : cls) : Prop :=
    k_count k = 0 /\ k_store k = [] /\ (forall a, k_dict k a = d0 a) /\ (forall a, k_saved k a = None).
End Methods.

(* ------------------------------------------------------------------ __init__ arguments *)
(* _end_model_construction: the collected attributes restricted to the meta-attributes of the
   class plus `parent` *)
Definition parent_key : list N := [112; 97; 114; 101; 110; 116]%N.
Definition init_kwargs {V} (tx_attrs : list (list N)) (attrs : list (list N * V)) : list (list N * V) :=
  filter (fun kv => mem_str (fst kv) tx_attrs || str_eqb (fst kv) parent_key) attrs.

(* the attributes collected for one object while loading: _init_obj_attrs sets every
   meta-attribute, process_node sets _tx_position/_tx_position_end and, when the object is
   contained (the instance stack is not empty), parent.  Later assignments overwrite in place. *)
Definition tx_pos_key : list N := [95; 116; 120; 95; 112; 111; 115; 105; 116; 105; 111; 110]%N.
Definition tx_pos_end_key : list N := tx_pos_key ++ [95; 101; 110; 100]%N.
Definition collected {V} (vals : list (list N * V)) (pos pos_end : V) (parent : option V) : list (list N * V) :=
  vals ++ [(tx_pos_key, pos); (tx_pos_end_key, pos_end)] ++
  match parent with Some p => [(parent_key, p)] | None => [] end.
