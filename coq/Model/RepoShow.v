(* Canonical printing of the C17/C18 model's observations and the history runner used by the
   correspondence (mirrors tools/props/repo_common.py canon_op). *)
From TxV Require Import Core.Base Core.Show Model.RepoDefs Gen.SrcRepo Model.Repo.
Open Scope string_scope.

(* nf = number of files: keys and file numbers >= nf are the invented names 'anonymousN' of models loaded
   from a string (shown as aN; such a model is shown as s@<op>, errors located in it carry no file name) *)
Definition show_key (nf k : nat) : string := if Nat.ltb k nf then show_nat k else "a" ++ show_nat (k - nf).
Definition show_efile (nf k : nat) : string := if Nat.ltb k nf then show_nat k else "?".
Definition show_tok (nf : nat) (c : cfg) (s : state) (m : nat) : string :=
  if Nat.ltb m (List.length (cbuiltins c)) then "b" ++ show_nat m
  else match nth_error (heap s) m with
       | Some i => if Nat.ltb (mfile i) nf then "f" ++ show_nat (mfile i) ++ "@" ++ show_nat (mop i) else "s@" ++ show_nat (mop i)
       | None => "?"
       end.
Definition show_dict (nf : nat) (c : cfg) (s : state) (d : list (nat * nat)) : string :=
  sjoin "," (map (fun kv => show_key nf (fst kv) ++ ">" ++ show_tok nf c s (snd kv)) d).
Definition show_target (nf : nat) (c : cfg) (s : state) (t : option (nat * nat)) : string :=
  match t with None => "None" | Some (m, i) => show_tok nf c s m ++ "." ++ show_nat i end.
Definition targets_of (m : nat) (s : state) : list (option (nat * nat)) :=
  match dget m (targets s) with Some l => l | None => map (fun _ => None) (refs_of m s) end.
Definition show_model (nf : nat) (c : cfg) (s : state) (m : nat) : string :=
  show_tok nf c s m ++ "{" ++ show_dict nf c s (local_of m s) ++ "}{"
  ++ sjoin "," (map (show_target nf c s) (targets_of m s)) ++ "}".
Definition show_err (nf : nat) (e : err) : string :=
  match e with
  | ESyntax f => "err:syntax:" ++ show_efile nf f | ENoFile => "err:nofile" | EUnres f => "err:unresolved:" ++ show_efile nf f
  | EObj f => "err:obj:" ++ show_efile nf f | EMp f => "err:mp:" ++ show_efile nf f | EFuel => "FUEL" | EMissing f => "MISSING:" ++ show_nat f
  end.
(* norepo: the result has no _tx_model_repository (a string main under the RREL '+m:' provider without references:
   load_models, which creates the repository object, is called once per reference); get_included_models is then the
   model alone.  Loading itself is as modelled: resolution and processors range over the models under construction. *)
Definition show_load_gen (norepo : bool) (nf : nat) (c : cfg) (r : (err + nat) * state) : string :=
  let '(res, s) := r in
  let g := if cglobal c then show_dict nf c s (allm s) else "-" in
  let rd := sjoin "," (map show_nat (reads s)) in
  match res with
  | inr m => "ok|" ++ rd ++ "|" ++ show_tok nf c s m ++ "|" ++ sjoin ";" (map (show_model nf c s) (if norepo then [m] else included m s))
             ++ "|" ++ (if norepo then "" else show_dict nf c s (allm s)) ++ "|" ++ g
  | inl e => show_err nf e ++ "|" ++ rd ++ "|-|"
             ++ sjoin ";" (map (show_model nf c s) (if cglobal c then map snd (allm s) else [])) ++ "|-|" ++ g
  end.

Definition show_load := show_load_gen false.
Definition at_op (s : state) (i : nat) : state := mkState (heap s) (allm s) (locals s) (constr s) (targets s) (reads s) i.
Fixpoint run_ops (c : cfg) (fs : list file) (s : state) (i : nat) (ops : list op) : list string :=
  match ops with
  | [] => []
  | OWrite f fc :: t => "w" :: run_ops c (set_nth f fc fs) s (S i) t
  | OLoad f :: t =>
      let r := load_main fs c f (at_op s i) in
      show_load (List.length fs) c r :: run_ops c fs (snd r) (S i) t
  | OLoadStr fc :: t =>
      let r := load_str fs c fc (at_op s i) in
      show_load_gen (clazy c && is_nil (frefs fc))%bool (List.length fs) c r :: run_ops c fs (snd r) (S i) t
  end.

(* histories over several languages *)
Definition show_repos (nf nl : nat) (mc : mlcfg) (s : state) (repos : list (nat * list (nat * nat))) : string :=
  sjoin ";" (map (fun L => if lglob mc L then show_dict nf (mkCfg true false [] false) s (repo_of repos L) else "-") (seq 0 nl)).
Fixpoint run_ops_ml (mc : mlcfg) (fs : list file) (ms : state * list (nat * list (nat * nat))) (i : nat) (ops : list op) : list string :=
  match ops with
  | [] => []
  | OWrite f fc :: t => "w" :: run_ops_ml mc (set_nth f fc fs) ms (S i) t
  | OLoad f :: t =>
      let r := ml_load fs mc f (at_op (fst ms) i, snd ms) in
      let c := mkCfg (lglob mc (lang mc f)) false [] false in
      (show_load (List.length fs) c (fst r, fst (snd r)) ++ "|" ++
       show_repos (List.length fs) (List.length (lglobal mc)) mc (fst (snd r)) (snd (snd r)))
      :: run_ops_ml mc fs (snd r) (S i) t
  | OLoadStr _ :: t => "?" :: run_ops_ml mc fs ms (S i) t
  end.
Definition run_case_ml (lg : list bool) (lo : list nat) (fs : list file) (ops : list op) : string :=
  sjoin " # " (run_ops_ml (mkML lg lo) fs (init_state [], []) 0 ops).

Definition run_case_u (uniq glob lazy : bool) (builtins : list file) (fs : list file) (ops : list op) : string :=
  sjoin " # " (run_ops (init_cfg_u uniq glob lazy builtins) fs (init_state builtins) 0 ops).
Definition run_case := run_case_u false.

(* Printing long strings is what costs time in coqc, so the correspondence compares a hash
   of the canonical outcome and asks for the full text only where the hashes differ. *)
Fixpoint hash_string (s : string) (h : N) : N :=
  match s with
  | EmptyString => h
  | String a t => hash_string t (N.modulo (h * 1000003 + Ascii.N_of_ascii a) 1099511627776)
  end.
Definition run_case_ml_hash (lg : list bool) (lo : list nat) (fs : list file) (ops : list op) : string :=
  show_N (hash_string (run_case_ml lg lo fs ops) 7).
Definition run_case_u_hash (uniq glob lazy : bool) (builtins : list file) (fs : list file) (ops : list op) : string :=
  show_N (hash_string (run_case_u uniq glob lazy builtins fs ops) 7).
Definition run_case_hash (glob lazy : bool) (builtins : list file) (fs : list file) (ops : list op) : string :=
  show_N (hash_string (run_case glob lazy builtins fs ops) 7).
