(* Data types shared by the generated Gen/SrcKw.v and the keyword / ignore_case model. *)
From TxV Require Import Core.Base.

(* how a terminal constructor call in textx/lang.py fills its [ignore_case] argument *)
Inductive icase_arg :=
| IcMM                 (* ignore_case=self.metamodel.ignore_case *)
| IcConst (b : bool)   (* a literal True / False *)
| IcAbsent.            (* argument not passed: Arpeggio leaves the terminal case sensitive *)
