(* C02 — data types shared by the generated source facts (Gen/SrcMult.v) and Model/Mult.v. *)
From TxV Require Import Core.Base.

(* textx/const.py: MULT_ONE "1", MULT_OPTIONAL "0..1", MULT_ZEROORMORE "0..*", MULT_ONEORMORE "1..*" *)
Inductive mult := M1 | M01 | M0s | M1s.

(* assignment operators  =  ?=  *=  += *)
Inductive asgop := OpPlain | OpBool | OpStar | OpPlus.

Definition mult_eqb (x y : mult) : bool :=
  match x, y with
  | M1, M1 | M01, M01 | M0s, M0s | M1s, M1s => true
  | _, _ => false
  end.

Definition mult_mem (x : mult) (l : list mult) : bool := existsb (mult_eqb x) l.

(* list.index: position of the first occurrence (length of the list when absent; Python raises) *)
Fixpoint mult_index (x : mult) (l : list mult) : nat :=
  match l with
  | [] => 0
  | y :: r => if mult_eqb x y then 0 else S (mult_index x r)
  end.

(* how model.py's list-assignment handler tells separator nodes from value nodes among the children of a
   `*=`/`+=` node: by the expression that produced the node (identity with the repetition's separator), by the
   rule name "sep", or by position (every odd-indexed child when the repetition has a separator) *)
Inductive sepmode := SepByNode | SepByName | SepByPosition.
