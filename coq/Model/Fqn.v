(* Model of textx/scoping/providers.py FQN.__call__ (C10): find_obj, _find_obj_fqn and
   _find_referenced_obj, over object tables (Model/FqnDefs.v).  The attribute filter of
   find_obj is a parameter (`walked`); the filter of the current source is Gen.SrcFqn.src_walked
   (translated on every run).  No proofs here. *)
From TxV Require Import Core.Base Model.FqnDefs Gen.SrcFqn.

Notation model := (list obj) (only parsing).

Definition get (m : model) (i : nat) : option obj := nth_error m i.

Definition name_of (m : model) (i : nat) : option (list N) :=
  match get m i with Some o => o_name o | None => None end.

Definition cls_of (m : model) (i : nat) : option nat :=
  match get m i with Some o => Some (o_cls o) | None => None end.

(* hasattr(innerobj, "name") and innerobj.name == name *)
Definition named (m : model) (nm : list N) (i : nat) : bool :=
  match name_of m i with Some s => str_eqb s nm | None => false end.

(* body of the loop over one attribute value: list/tuple -> first element with that name;
   otherwise the value itself when it has that name *)
Definition attr_find (m : model) (nm : list N) (a : attr) : option nat :=
  match a_val a with
  | VPrim => None
  | VOne None => None
  | VOne (Some i) => if named m nm i then Some i else None
  | VMany l => find (named m nm) l
  end.

Fixpoint first_some {A B : Type} (f : A -> option B) (l : list A) : option B :=
  match l with
  | [] => None
  | x :: l' => match f x with Some y => Some y | None => first_some f l' end
  end.

Definition parent_name : list N := [112;97;114;101;110;116]%N.  (* "parent" *)

(* hasattr(p, "parent") / p.parent: the instance attribute called parent *)
Definition parent_of (m : model) (p : nat) : option nat :=
  match get m p with
  | None => None
  | Some o => match find (fun a => str_eqb (a_name a) parent_name) (o_attrs o) with
              | Some a => match a_val a with VOne (Some q) => Some q | _ => None end
              | None => None
              end
  end.

Inductive result := Found (t : nat) | Unknown | OutOfFuel.

Section Walk.
  Variable walked : attr -> bool.        (* the comprehension filter of find_obj *)
  Variable conf : nat -> nat -> bool.    (* textx_isinstance on class ids: conf c T *)

  (* find_obj(parent, name) without scope_redirection_logic (FQN() default) *)
  Definition find_obj (m : model) (p : nat) (nm : list N) : option nat :=
    match get m p with
    | None => None
    | Some o => first_some (attr_find m nm) (filter walked (o_attrs o))
    end.

  (* the loop `for n in fqn_name.split(".")` *)
  Fixpoint find_path (m : model) (p : nat) (parts : list (list N)) : option nat :=
    match parts with
    | [] => Some p
    | nm :: rest => match find_obj m p nm with
                    | Some c => find_path m c rest
                    | None => None
                    end
    end.

  Definition conforms (m : model) (t T : nat) : bool :=
    match cls_of m t with Some c => conf c T | None => false end.

  (* _find_obj_fqn(p, fqn_name, cls) *)
  Definition find_obj_fqn (m : model) (p : nat) (parts : list (list N)) (T : nat) : option nat :=
    match find_path m p parts with
    | Some t => if conforms m t T then Some t else None
    | None => None
    end.

  (* _find_referenced_obj: try p, then p.parent, ... (fuel bounds the `while hasattr(p, "parent")` loop) *)
  Fixpoint find_referenced (fuel : nat) (m : model) (p : nat) (parts : list (list N)) (T : nat) : result :=
    match find_obj_fqn m p parts T with
    | Some t => Found t
    | None =>
      match parent_of m p with
      | None => Unknown
      | Some q => match fuel with
                  | 0 => OutOfFuel
                  | S f => find_referenced f m q parts T
                  end
      end
    end.
End Walk.

(* str.split(".") *)
Fixpoint split_dots (s : list N) : list (list N) :=
  match s with
  | [] => [[]]
  | c :: s' => if N.eqb c 46 then [] :: split_dots s'
               else match split_dots s' with
                    | [] => [[c]]
                    | w :: ws => (c :: w) :: ws
                    end
  end.

Fixpoint join_dots (parts : list (list N)) : list N :=
  match parts with
  | [] => []
  | [p] => p
  | p :: rest => p ++ 46%N :: join_dots rest
  end.

(* FQN()(current_obj, attr, ObjCrossRef(obj_name=text, cls=T)) *)
Definition fqn_resolve_with (walked : attr -> bool) (conf : nat -> nat -> bool) (m : model) (r : nat)
           (text : list N) (T : nat) : result :=
  find_referenced walked conf (length m) m r (split_dots text) T.

Definition fqn_resolve := fqn_resolve_with src_walked.

(* the filter before the repair (every non-dunder, non-_tx_, non-callable instance attribute) *)
Definition old_walked (a : attr) : bool :=
  (negb (is_prefix [95;95]%N (a_name a)) && negb (is_prefix [95;116;120;95]%N (a_name a)) && negb (a_call a))%bool.

(* ------------------------------------------------------------------ specification *)

Definition in_val (c : nat) (v : aval) : Prop :=
  match v with VPrim => False | VOne x => x = Some c | VMany l => In c l end.

(* c is directly contained in o: it is a value of a containment attribute of o *)
Definition contains (m : model) (o c : nat) : Prop :=
  exists ob a, get m o = Some ob /\ In a (o_attrs ob) /\ a_decl a = true /\ a_cont a = true /\ in_val c (a_val a).

(* o contains an object named n1, which contains one named n2, ..., ending in t *)
Inductive chain (m : model) : nat -> list (list N) -> nat -> Prop :=
| chain_nil o : chain m o [] o
| chain_cons o c nm rest t :
    contains m o c -> name_of m c = Some nm -> chain m c rest t -> chain m o (nm :: rest) t.

(* s is the i-th ancestor of r (0: r itself) *)
Inductive scope_at (m : model) : nat -> nat -> nat -> Prop :=
| scope_self r : scope_at m r 0 r
| scope_up r q i s : parent_of m r = Some q -> scope_at m q i s -> scope_at m r (S i) s.

Definition good (conf : nat -> nat -> bool) (m : model) (s : nat) (parts : list (list N)) (T t : nat) : Prop :=
  chain m s parts t /\ conforms conf m t T = true.

(* t is the end of the chain from the nearest scope that has a well-typed chain *)
Definition resolves_to conf (m : model) (r : nat) (parts : list (list N)) (T t : nat) : Prop :=
  exists i s, scope_at m r i s /\ good conf m s parts T t /\
              forall j s' t', j < i -> scope_at m r j s' -> ~ good conf m s' parts T t'.

Definition unresolvable conf (m : model) (r : nat) (parts : list (list N)) (T : nat) : Prop :=
  forall i s t, scope_at m r i s -> ~ good conf m s parts T t.

(* sibling names unique, as far as the names in `parts` are concerned *)
Definition unique_on (m : model) (parts : list (list N)) : Prop :=
  forall o c1 c2 nm, In nm parts -> contains m o c1 -> contains m o c2 ->
                     name_of m c1 = Some nm -> name_of m c2 = Some nm -> c1 = c2.

Definition siblings_unique (m : model) : Prop :=
  forall o c1 c2 nm, contains m o c1 -> contains m o c2 ->
                     name_of m c1 = Some nm -> name_of m c2 = Some nm -> c1 = c2.

(* ------------------------------------------------------------------ well-formedness (decidable) *)

Definition dunder : list N := [95;95]%N.
Definition txpre : list N := [95;116;120;95]%N.

(* a textX object's __dict__: declared attributes (not callable, ordinary names) plus
   `parent` and `_tx_*` bookkeeping entries *)
Definition wf_attr (a : attr) : bool :=
  if a_decl a
  then negb (is_prefix dunder (a_name a)) && negb (is_prefix txpre (a_name a))
       && negb (str_eqb (a_name a) parent_name) && negb (a_call a)
  else str_eqb (a_name a) parent_name || is_prefix txpre (a_name a).

Definition wf_obj (m : model) (i : nat) : bool :=
  match get m i with
  | None => false
  | Some o => forallb wf_attr (o_attrs o)
              && match parent_of m i with Some q => Nat.ltb q i | None => true end
  end.

Definition wf_model (m : model) : bool := forallb (wf_obj m) (seq 0 (length m)).

(* decidable sibling uniqueness *)
Definition children_of (o : obj) : list nat :=
  flat_map (fun a => if (a_decl a && a_cont a)%bool
                     then match a_val a with VPrim => [] | VOne None => [] | VOne (Some c) => [c] | VMany l => l end
                     else []) (o_attrs o).

Definition same_name_distinct (m : model) (c c' : nat) : bool :=
  match name_of m c, name_of m c' with
  | Some a, Some b => str_eqb a b && negb (Nat.eqb c c')
  | _, _ => false
  end.

Fixpoint uniq_names (m : model) (l : list nat) : bool :=
  match l with
  | [] => true
  | c :: l' => forallb (fun c' => negb (same_name_distinct m c c')) l' && uniq_names m l'
  end.

Definition unique_b (m : model) : bool := forallb (fun o => uniq_names m (children_of o)) m.

(* erase the values of non-containment references (any resolution state looks the same) *)
Definition erase_attr (a : attr) : attr :=
  if (a_decl a && negb (a_cont a))%bool
  then {| a_name := a_name a; a_decl := a_decl a; a_cont := a_cont a; a_call := false; a_val := VPrim |}
  else a.
Definition erase_obj (o : obj) : obj :=
  {| o_cls := o_cls o; o_name := o_name o; o_attrs := map erase_attr (o_attrs o) |}.
Definition erase_refs (m : model) : model := map erase_obj m.
