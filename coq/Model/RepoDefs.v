(* Data types shared by the generated SrcRepo.v and the multi-file loading model (C17/C18). *)
From TxV Require Import Core.Base.
(* where ImportURI.__call__ looks, in order *)
Inductive scope_src := SOwn | SLocal | SBuiltin.
