(* C24: a boolean checker that two parser models (Model/PegSyntax.v grammars, as dumped from the
   live parsers) accept the same inputs under the Arpeggio interpreter model Model/Peg.v.

   [peg_equiv_diffs ne seeds g1 g2] computes a set R of node pairs (i, j, strong) by a synchronized
   traversal from the two top nodes (plus the seed pairs), and returns the pairs of R whose LOCAL
   check fails.  The local check of a pair only looks at the two nodes and asks that the pairs of
   their children are in R, so its soundness does not depend on how R was computed
   (Proofs/PegEquivProofs.v: if every pair of R passes, the interpreter accepts the same inputs).

   What is ignored (acceptance-irrelevant in the interpreter, proved): node ids, rule names, the
   [root] flag (NonTerminal creation), unit wrapper sequences (textX's [__asgn_plain] around an
   assignment's right-hand side), one level of sequence nesting inside a sequence, and the notation
   `x (s x)*` (first grammar) for `x+[s]` (second grammar) when x is always truthy on success ([atrue],
   which may use the explicit oracle hypothesis that the regexes listed in [ne] never match empty).
   What is kept: kinds, texts of string matches, oracle ids of regex matches (= pattern text and
   flags, the translator shares the numbering), order and number of children, separators,
   suppression, and the None/falsy-result quirks: a wrapper is transparent in an ordered choice /
   optional only if the other node cannot return a falsy non-None value ([efree]); every ordered
   choice / optional must have such children ([cho_ok]).
   Not supported (reported as differing): rule-level ws/skipws, eolterm, UnorderedGroup, And, Not,
   Empty. *)
From TxV Require Import Core.Base Model.PegSyntax Model.Peg.

Definition optnat_eqb (a b : option nat) : bool :=
  match a, b with
  | None, None => true
  | Some x, Some y => Nat.eqb x y
  | _, _ => false
  end.

(* terminal nodes compare by kind, text and oracle id *)
Definition term_eqb (a b : kind) : bool :=
  match a, b with
  | KEOF, KEOF => true
  | KStr s o, KStr s' o' => str_eqb s s' && optnat_eqb o o'
  | KRegex o, KRegex o' => Nat.eqb o o'
  | _, _ => false
  end.

(* no rule-level whitespace modifiers, no eolterm *)
Definition plain (nd : node) : bool :=
  match n_ws nd, n_skipws nd with
  | None, None => negb (n_eolterm nd)
  | _, _ => false
  end.

Definition seq_kids (g : grammar) (i : nat) : option (list nat) :=
  match get_node g i with
  | Some nd => match n_kind nd with
               | KSeq => if plain nd && negb (n_suppress nd) then Some (n_kids nd) else None
               | _ => None
               end
  | None => None
  end.

Definition unit_kid (g : grammar) (i : nat) : option nat :=
  match seq_kids g i with Some [x] => Some x | _ => None end.

(* [efree g d i]: node i never returns a falsy value other than None (depth-bounded, fail closed) *)
Fixpoint efree (g : grammar) (d : nat) (i : nat) : bool :=
  match get_node g i with
  | None => false
  | Some nd =>
    if n_suppress nd then true else
    match n_kind nd with
    | KSeq | KEOF | KStr _ _ | KRegex _ => true
    | KChoice | KOpt =>
      match d with
      | 0 => false
      | S d' => forallb (efree g d') (n_kids nd)
      end
    | _ => false
    end
  end.

Definition EDEPTH : nat := 8.

(* [atrue g ne d i]: whenever node i succeeds its value is truthy (depth-bounded, fail closed).
   [ne] lists the oracle ids assumed never to match the empty string (an explicit hypothesis of the
   soundness theorem: forall o in ne, forall p, orc o p <> Some 0).  An ordered choice that passes the
   pair check always returns a non-empty list. *)
Fixpoint atrue (g : grammar) (ne : list nat) (d : nat) (i : nat) : bool :=
  match get_node g i with
  | None => false
  | Some nd =>
    if n_suppress nd then false else
    match n_kind nd with
    | KStr _ _ | KEOF | KChoice => true
    | KRegex o => existsb (Nat.eqb o) ne
    | KSeq => match d with 0 => false | S d' => existsb (atrue g ne d') (n_kids nd) end
    | KPlus => match d with
               | 0 => false
               | S d' => match n_kids nd with [e] => atrue g ne d' e | _ => false end
               end
    | _ => false
    end
  end.

(* node st is a plain `( s x )*`: ZeroOrMore without separator over a plain two-element sequence *)
Definition star_sep (g : grammar) (st : nat) : option (nat * nat) :=
  match get_node g st with
  | Some nd =>
    match n_kind nd, n_kids nd, n_sep nd with
    | KStar, [q], None =>
      if plain nd && negb (n_suppress nd) then
        match seq_kids g q with Some [s; x] => Some (s, x) | _ => None end
      else None
    | _, _, _ => None
    end
  | None => None
  end.

(* node y is a plain `e+[t]`: OneOrMore with a separator *)
Definition plus_sep (g : grammar) (y : nat) : option (nat * nat) :=
  match get_node g y with
  | Some nd =>
    match n_kind nd, n_kids nd, n_sep nd with
    | KPlus, [e], Some t => if plain nd && negb (n_suppress nd) then Some (e, t) else None
    | _, _, _ => None
    end
  | None => None
  end.

Definition cho_ok (g : grammar) (nd : node) : bool := forallb (efree g EDEPTH) (n_kids nd).

Section Check.
Variables g1 g2 : grammar.
Variable ne : list nat.
(* [weak]: also accept differences that change only the failure bookkeeping (parser.nm): sound for
   ACCEPTANCE, not for error positions.  [alts]: oracle triples (o1, o2, o3) assumed to satisfy
   "o3 matches like o1, and like o2 where o1 does not match" (explicit hypothesis of the weak theorem) *)
Variable weak : bool.
Variable alts : list (nat * nat * nat).
Variable R : list (nat * nat * bool).

Definition pin_any (i j : nat) : bool :=
  existsb (fun p => match p with (a, b, _) => Nat.eqb a i && Nat.eqb b j end) R.
Definition pin_strong (i j : nat) : bool :=
  existsb (fun p => match p with (a, b, s) => Nat.eqb a i && Nat.eqb b j && s end) R.
Definition pin (c : bool) (i j : nat) : bool := if c then pin_strong i j else pin_any i j.

Fixpoint zip_in (c : bool) (l1 l2 : list nat) : bool :=
  match l1, l2 with
  | [], [] => true
  | x :: t1, y :: t2 => pin c x y && zip_in c t1 t2
  | _, _ => false
  end.

(* `x (s x')*` in the first grammar against `e+[t]` in the second: x, x' paired with e, s with t, and x, x'
   always truthy on success (otherwise OneOrMore stops at a falsy element while the other form goes on) *)
Definition sepform (x : nat) (t1 : list nat) (y : nat) : bool :=
  match t1 with
  | st :: _ =>
    match star_sep g1 st, plus_sep g2 y with
    | Some (s, x'), Some (e, t) =>
      pin_any x e && pin_any x' e && pin_any s t && atrue g1 ne EDEPTH x && atrue g1 ne EDEPTH x'
    | _, _ => false
    end
  | [] => false
  end.

(* children of two sequences: pairwise in R, where one child that is itself a plain sequence may stand
   for a segment of children of the other side (either side) *)
Fixpoint seq_align (n : nat) (l1 l2 : list nat) : bool :=
  match n with
  | 0 => false
  | S n' =>
    match l1, l2 with
    | [], [] => true
    | x :: t1, y :: t2 =>
      (pin_any x y && seq_align n' t1 t2)
      || sepform x t1 y && seq_align n' (tl t1) t2
      || match seq_kids g2 y with
         | Some ks => (length ks <=? length l1) && zip_in false (firstn (length ks) l1) ks
                      && seq_align n' (skipn (length ks) l1) t2
         | None => false
         end
      || match seq_kids g1 x with
         | Some ks => (length ks <=? length l2) && zip_in false ks (firstn (length ks) l2)
                      && seq_align n' t1 (skipn (length ks) l2)
         | None => false
         end
    | _, _ => false
    end
  end.

(* node k is a plain, non-suppressed regex match: its oracle id *)
Definition regex_oid (g : grammar) (k : nat) : option nat :=
  match get_node g k with
  | Some nd => match n_kind nd with
               | KRegex o => if plain nd && negb (n_suppress nd) then Some o else None
               | _ => None
               end
  | None => None
  end.

Definition in_alts (o1 o2 o3 : nat) : bool :=
  existsb (fun t => match t with (a, b, c) => Nat.eqb a o1 && Nat.eqb b o2 && Nat.eqb c o3 end) alts.

(* an ordered choice of two regex matches against one regex match (weak mode only) *)
Definition choice_regex (a : node) (o3 : nat) : bool :=
  match n_kids a with
  | [k1; k2] =>
    match regex_oid g1 k1, regex_oid g1 k2 with
    | Some o1, Some o2 => in_alts o1 o2 o3 && existsb (Nat.eqb o1) ne && existsb (Nat.eqb o2) ne
    | _, _ => false
    end
  | _ => false
  end.

(* node k of the second grammar is a plain regex match, possibly under one unit wrapper sequence *)
Definition regex_alt (k : nat) : option nat :=
  match regex_oid g2 k with
  | Some o => Some o
  | None => match unit_kid g2 k with Some y => regex_oid g2 y | None => None end
  end.

(* one regex match (first grammar) against an ordered choice of two regex matches (second grammar; weak mode) *)
Definition regex_choice_r (o3 : nat) (b : node) : bool :=
  match n_kids b with
  | [k1; k2] =>
    match regex_alt k1, regex_alt k2 with
    | Some o1, Some o2 => in_alts o1 o2 o3 && existsb (Nat.eqb o1) ne && existsb (Nat.eqb o2) ne
    | _, _ => false
    end
  | _ => false
  end.

Definition sep_ok (a b : node) : bool :=
  match n_sep a, n_sep b with
  | None, None => true
  | Some x, Some y => pin_any x y
  | _, _ => false
  end.

Definition struct_ok (a b : node) : bool :=
  plain a && plain b && Bool.eqb (n_suppress a) (n_suppress b) &&
  match n_kind a, n_kind b with
  | KSeq, KSeq => seq_align (S (length (n_kids a) + length (n_kids b))) (n_kids a) (n_kids b)
  | KSeq, KPlus =>
    match n_kids a, n_kids b, n_sep b with
    | [x; st], [e], Some t =>
      match star_sep g1 st with
      | Some (s, x') =>
        pin_any x e && pin_any x' e && pin_any s t && atrue g1 ne EDEPTH x && atrue g1 ne EDEPTH x'
      | None => false
      end
    | _, _, _ => false
    end
  | KChoice, KRegex o3 => weak && choice_regex a o3
  | KRegex o3, KChoice => weak && regex_choice_r o3 b
  | KChoice, KChoice => zip_in true (n_kids a) (n_kids b) && cho_ok g1 a && cho_ok g2 b
  | KOpt, KOpt =>
    match n_kids a, n_kids b with
    | [x], [y] => pin_strong x y && cho_ok g1 a && cho_ok g2 b
    | _, _ => false
    end
  | KStar, KStar | KPlus, KPlus =>
    match n_kids a, n_kids b with
    | [x], [y] => pin_any x y && sep_ok a b
    | _, _ => false
    end
  | ka, kb => term_eqb ka kb
  end.

Definition local_ok (p : nat * nat * bool) : bool :=
  match p with
  | (i, j, c) =>
    match get_node g1 i, get_node g2 j with
    | Some a, Some b =>
      struct_ok a b
      || match unit_kid g2 j with
         | Some y => pin_any i y && (negb c || efree g1 EDEPTH i)
         | None => false
         end
      || match unit_kid g1 i with
         | Some x => pin_any x j && (negb c || efree g2 EDEPTH j)
         | None => false
         end
    | _, _ => false
    end
  end.

(* the top pair is in R; comment models: both absent, or both non-terminal nodes paired in R *)
Definition nonterminal (g : grammar) (i : nat) : bool :=
  match get_node g i with
  | Some nd => negb (is_match_kind (n_kind nd))
  | None => false
  end.

Definition frame_ok : bool :=
  pin_any (g_top g1) (g_top g2) &&
  match g_comments g1, g_comments g2 with
  | None, None => true
  | Some a, Some b => pin_any a b && nonterminal g1 a && nonterminal g2 b
  | _, _ => false
  end.

End Check.

(* ---------------------------------------------------------------- computing R (no proof needed) *)
Section Reach.
Variables g1 g2 : grammar.

Definition same_class (a b : kind) : bool :=
  match a, b with
  | KSeq, KSeq | KChoice, KChoice | KOpt, KOpt | KStar, KStar | KPlus, KPlus => true
  | _, _ => false
  end.

Definition child_ctx (k : kind) : bool := match k with KChoice | KOpt => true | _ => false end.

Definition expand (g : grammar) (l : list nat) : list nat :=
  flat_map (fun x => match seq_kids g x with
                     | Some (a :: b :: ks) => a :: b :: ks
                     | _ => [x]
                     end) l.

Definition zipc (c : bool) (l1 l2 : list nat) : list (nat * nat * bool) :=
  map (fun p => (fst p, snd p, c)) (combine l1 l2).

(* children pairs of two sequences when the first one uses `x (s x)*` where the second has `e+[t]` *)
Fixpoint align_props (n : nat) (l1 l2 : list nat) : option (list (nat * nat * bool)) :=
  match n with
  | 0 => None
  | S n' =>
    match l1, l2 with
    | [], [] => Some []
    | x :: t1, y :: t2 =>
      let default := match align_props n' t1 t2 with Some l => Some ((x, y, false) :: l) | None => None end in
      match t1 with
      | st :: t1' =>
        match star_sep g1 st, plus_sep g2 y with
        | Some (s, x'), Some (e, t) =>
          match align_props n' t1' t2 with
          | Some l => Some ((x, e, false) :: (x', e, false) :: (s, t, false) :: l)
          | None => None
          end
        | _, _ => default
        end
      | [] => default
      end
    | _, _ => None
    end
  end.

Definition sep_props (a b : node) : list (nat * nat * bool) :=
  match n_kind a, n_kind b, n_kids a, n_kids b, n_sep b with
  | KSeq, KPlus, [x; st], [e], Some t =>
    match star_sep g1 st with
    | Some (s, x') => [(x, e, false); (x', e, false); (s, t, false)]
    | None => []
    end
  | _, _, _, _, _ => []
  end.

Definition proposals (p : nat * nat * bool) : list (nat * nat * bool) :=
  match p with
  | (i, j, _) =>
    match get_node g1 i, get_node g2 j with
    | Some a, Some b =>
      let k1 := n_kids a in let k2 := n_kids b in
      let seps := match n_sep a, n_sep b with Some x, Some y => [(x, y, false)] | _, _ => [] end in
      let units := match unit_kid g2 j, unit_kid g1 i with
                   | Some y, _ => [(i, y, false)]
                   | None, Some x => [(x, j, false)]
                   | None, None => []
                   end in
      if same_class (n_kind a) (n_kind b) then
        let c := child_ctx (n_kind a) in
        (if Nat.eqb (length k1) (length k2) then zipc c k1 k2
         else if Nat.eqb (length k1) (length (expand g2 k2)) then zipc c k1 (expand g2 k2)
         else if Nat.eqb (length (expand g1 k1)) (length k2) then zipc c (expand g1 k1) k2
         else match n_kind a with
              | KSeq => match align_props (S (length k1)) k1 k2 with Some l => l | None => [] end
              | _ => []
              end ++ units) ++ seps
      else sep_props a b ++ units
    | _, _ => []
    end
  end.

Definition rp_eqb (p q : nat * nat * bool) : bool :=
  match p, q with (a, b, c), (a', b', c') => Nat.eqb a a' && Nat.eqb b b' && Bool.eqb c c' end.

Fixpoint reach (fuel : nat) (todo seen : list (nat * nat * bool)) : list (nat * nat * bool) :=
  match fuel with
  | 0 => seen ++ todo
  | S f =>
    match todo with
    | [] => seen
    | p :: rest =>
      if existsb (rp_eqb p) seen then reach f rest seen
      else reach f (rest ++ proposals p) (seen ++ [p])
    end
  end.

Definition frame_pairs : list (nat * nat * bool) :=
  (g_top g1, g_top g2, false) ::
  match g_comments g1, g_comments g2 with
  | Some a, Some b => [(a, b, false)]
  | _, _ => []
  end.

Definition reach_all (seeds : list (nat * nat * bool)) : list (nat * nat * bool) :=
  let n := length (g_nodes g1) * length (g_nodes g2) in
  reach (4 * n + 100) (frame_pairs ++ seeds) [].
End Reach.

(* the differing pairs; the top pair stands for a failed frame check *)
Definition peg_equiv_diffs_gen (ne : list nat) (weak : bool) (alts : list (nat * nat * nat))
           (seeds : list (nat * nat * bool)) (g1 g2 : grammar) : list (nat * nat * bool) :=
  let R := reach_all g1 g2 seeds in
  (if frame_ok g1 g2 R then [] else [(g_top g1, g_top g2, false)])
  ++ filter (fun p => negb (local_ok g1 g2 ne weak alts R p)) R.

(* strong mode: equal acceptance AND equal error position *)
Definition peg_equiv_diffs (ne : list nat) (seeds : list (nat * nat * bool)) (g1 g2 : grammar) :=
  peg_equiv_diffs_gen ne false [] seeds g1 g2.
(* weak mode: equal acceptance only *)
Definition peg_equiv_diffs_acc (ne : list nat) (alts : list (nat * nat * nat))
           (seeds : list (nat * nat * bool)) (g1 g2 : grammar) :=
  peg_equiv_diffs_gen ne true alts seeds g1 g2.

Definition peg_equiv_check (ne : list nat) (seeds : list (nat * nat * bool)) (g1 g2 : grammar) : bool :=
  match peg_equiv_diffs ne seeds g1 g2 with [] => true | _ => false end.

(* ---------------------------------------------------------------- reporting by labels *)
Definition label_of (labs : list (list N)) (i : nat) : list N := nth i labs [63]%N.

Fixpoint index_of (x : list N) (labs : list (list N)) (k : nat) : option nat :=
  match labs with
  | [] => None
  | y :: t => if str_eqb x y then Some k else index_of x t (S k)
  end.

Definition seeds_of (labs1 labs2 : list (list N)) (l : list (list N * list N)) : list (nat * nat * bool) :=
  flat_map (fun p => match index_of (fst p) labs1 0, index_of (snd p) labs2 0 with
                     | Some i, Some j => [(i, j, false)]
                     | _, _ => []
                     end) l.

Definition diff_labels (labs1 labs2 : list (list N)) (d : list (nat * nat * bool)) : list (list N * list N) :=
  map (fun p => match p with (i, j, _) => (label_of labs1 i, label_of labs2 j) end) d.

Definition lp_eqb (p q : list N * list N) : bool := str_eqb (fst p) (fst q) && str_eqb (snd p) (snd q).

Definition incl_b (l acc : list (list N * list N)) : bool := forallb (fun p => existsb (lp_eqb p) acc) l.

Fixpoint nodup_b (l : list (list N)) : bool :=
  match l with
  | [] => true
  | x :: t => negb (mem_str x t) && nodup_b t
  end.

Definition accepts (o : outcome) : bool := match o with Parsed _ => true | _ => false end.

(* ---------------------------------------------------------------- the textX instance (committed data)
   Labels are those of Gen/SrcLangPeg.v (lang.py parser) and Gen/SrcTxPeg.v (textx.tx parser). *)
Require Import Coq.Strings.String Coq.Strings.Ascii.
Definition sN (s : string) : list N := map N_of_ascii (list_ascii_of_string s).

(* regular expressions that cannot match the empty string (oracle hypothesis of the soundness theorem, checked
   per run on every oracle table by tools/props/c24.py and by re.match('') in the translator) *)
Definition textx_nonempty_patterns : list (list N) :=
  map sN [ "\w+"; "'((\\')|[^'])*'"; """((\\"")|[^""])*""";
           "(ID|BOOL|INT|FLOAT|STRING|NUMBER|BASETYPE)\b(?!\.\w)"; "\w+(\.\w+)*" ]%string.

(* oracle ids of the shared table whose pattern text is in the list *)
Definition ne_of (oracles : list (list N * nat)) (pats : list (list N)) : list nat :=
  (fix go (l : list (list N * nat)) (k : nat) : list nat :=
     match l with
     | [] => []
     | (p, _) :: t => if mem_str p pats then k :: go t (S k) else go t (S k)
     end) oracles 0.

(* regex triples (p1, p2, p3): p3 matches at a position with the length p1 matches there, else with the length p2
   matches there (oracle hypothesis of the acceptance theorem, checked per run with re on every text and position) *)
Definition textx_alt_patterns : list (list N * list N * list N) :=
  map (fun t => match t with (a, b, c) => (sN a, sN b, sN c) end)
  [ ("'((\\')|[^'])*'", """((\\"")|[^""])*""", "(""(\\""|[^""])*"")|(\'(\\\'|[^\'])*\')");
    ("(ID|BOOL|INT|FLOAT|STRING|NUMBER|BASETYPE)\b(?!\.\w)", "\w+(\.\w+)*", "\w+(\.\w+)*") ]%string.

Definition oid_of (oracles : list (list N * nat)) (p : list N) : option nat :=
  (fix go (l : list (list N * nat)) (k : nat) : option nat :=
     match l with
     | [] => None
     | (q, _) :: t => if str_eqb p q then Some k else go t (S k)
     end) oracles 0.

Definition alts_of (oracles : list (list N * nat)) (l : list (list N * list N * list N)) : list (nat * nat * nat) :=
  flat_map (fun t => match t with (a, b, c) =>
              match oid_of oracles a, oid_of oracles b, oid_of oracles c with
              | Some x, Some y, Some z => [(x, y, z)]
              | _, _, _ => []
              end end) l.

(* extra starting points of the traversal below differing pairs (untrusted: any R is sound) *)
Definition textx_seeds : list (list N * list N) :=
  map (fun p => (sN (fst p), sN (snd p)))
  [ ("rule_param", "RuleParam"); ("sequence", "Sequence");
    ("rrel_path", "RRELPath"); ("rrel_path.0.0", "RRELPath.0.0");
    ("rrel_path.0.1.0.0", "RRELPathPart"); ("rrel_path.0.2", "RRELPathPart");
    ("rrel_navigation.0", "RRELNavigation") ]%string.

(* The accepted differing pairs, by class.
   FINDING  = the two nodes accept different texts (a recorded known finding with a witness);
   NOTATION = different parsing expressions believed to accept the same texts in their context; the
              checker cannot decide them (regular expressions are oracles, separator notation needs a
              follow-set argument); they are covered by the differential correspondence only. *)
Definition textx_accepted_diffs : list (list N * list N) :=
  map (fun p => (sN (fst p), sN (snd p)))
  [ (* FINDING digit-identifiers: lang.py `ident` = \w+, textx.tx uses ID *)
    ("rule_name", "ID"); ("param_name", "ID"); ("ident", "ID"); ("attribute", "ID");
    ("obj_ref_rule", "ID");
    (* NOTATION rule reference: one regex \w+(\.\w+)* vs builtin-regex | QualifiedIdent (same texts since the
       textx.tx fixes 0e20cef/54ee7b7; not decidable here, regexes are oracles) *)
    ("rule_ref", "RuleRef");
    (* FINDING rrel-flags: \+[mp]+: vs '+m:' *)
    ("rrel_expression.0.0", "RRELExpression.0.0");
    (* FINDING rrel-fixed-name: ['n'~attr] is missing in textx.tx *)
    ("rrel_navigation", "RRELNavigation");
    (* NOTATION separator: (x sep)* x  vs  x+[sep]  (the two forms differ as nodes - after `a,` one fails, the
       other succeeds on `a` - and agree only in their context; x (sep x)* vs x+[sep] is decided by the checker) *)
    ("rrel_sequence", "RRELSequence.0"); ("rrel_path.0", "RRELPath.0");
    (* NOTATION+FINDING: one regex /.../ vs '/' regex '/' (known finding regex-backslash-end) *)
    ("re_match", "ReMatch");
    (* NOTATION terminals: two-alternative string_value vs the STRING regex: decided in weak (acceptance) mode
       under the oracle hypothesis textx_alt_patterns; still differing in strong (error position) mode *)
    ("string_value", "STRING"); ("str_match", "STRING") ]%string.

(* accepted pairs of the acceptance-only (weak) check *)
Definition textx_accepted_diffs_acc : list (list N * list N) :=
  filter (fun p => negb (lp_eqb p (sN "string_value", sN "STRING")) && negb (lp_eqb p (sN "str_match", sN "STRING"))
                   && negb (lp_eqb p (sN "rule_ref", sN "RuleRef")))%string
         textx_accepted_diffs.
