#!/bin/sh
# Offline build of the whole Coq development from files on disk (MANIFEST.setup_cmd).
cd "$(dirname "$0")" || exit 2
set -e
export PYTHONDONTWRITEBYTECODE=1
# no forbidden vernacular anywhere in the development
if grep -rnE '\b(Admitted|admit|Axiom|Parameter|Conjecture|Admit Obligations|bypass_check|Unset Guard Checking|Unset Positivity Checking|Unset Universe Checking)\b' coq --include='*.v' | grep -v '^coq/Gen/' ; then
  echo "forbidden vernacular found"; exit 1
fi
/venv/bin/python -B tools/scan_assumptions.py || { echo "assumption declared in the development"; exit 1; }
/venv/bin/python -B tools/translate/all.py || echo "warning: a translator failed on the current tree (the affected checks will report it)"
/venv/bin/python -B - <<'PY'
import sys
sys.path.insert(0, 'tools')
from vt import core
core.coq_refresh_makefile()
PY
cd coq && timeout 3000 make -f Makefile.coq -j16 -k || echo "warning: some Coq files did not build on the current tree (the affected checks will report it)"
