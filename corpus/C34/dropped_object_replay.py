from textx import metamodel_from_str
from textx.model import get_children
mm = metamodel_from_str("A: c=C B; C: 'c' n=ID; B: 'b' m=ID;", textx_tools_support=True)
txt = "c x b y"
m = mm.model_from_str(txt)
print([(k, type(v).__name__) for k, v in m._pos_rule_dict.items()])
print([type(o).__name__ for o in get_children(lambda o: True, m)], hasattr(m, 'm'))
